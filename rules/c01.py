"""C01 - Beacon configuration extraction is exact and complete (structural spine).

The rules are phrased over *values* and *control flow*, not over the spelling of the code:

* `_Val` evaluates an expression at a program point into a canonical value term (flow-sensitive reaching definitions,
  tuple packing/unpacking, loop elements, dict literals, constant folding).  Temporaries, renamed locals, keyword vs
  positional arguments, hoisted constants and inlined helper bodies are invisible at this level.
* Subjects are located by role: "the loop that consumes the scanner", "the yield inside the loop over
  find_beacon_config_bytes(<XorEncoded view>, <key>)", "the object that is returned and was built from the candidate".
* Gating of the search phases (`found` logic) is decided by a path-sensitive exploration of the CFG that tracks the
  constant boolean locals: "after a candidate has been yielded, no later phase can be entered" - whether that is
  implemented with a flag, an early return or nested ifs does not matter.

Three verdicts: the located construct satisfies the necessary condition -> discharged; it is located and does not ->
violated; the construct cannot be located in the (normalised) code -> undecided.

Technique
---------
(numbers: ALLOWED devices 1-6 of RULES_GUIDE.md "What counts as *static* here"; nothing in this module interprets /repo
function bodies, loops or expressions on data chosen by the checker, enumerates numeric inputs, unrolls a loop or matches
sample strings.  Comparisons are structural equality of terms or equality of constants/tables; the only lemmas relied
on are the two library facts about bytes.find() stated under R15 (L1, L2) and polynomial normal form there.)

* Shared: `_Val` - device 3 (reaching definitions substituted into symbolic value terms: copies, tuple (un)packing,
  dict literals, argument binding into resolved package callees, loop variables as the symbolic `("elem", loop)`,
  loop-carried names kept opaque - no unrolling; several reaching definitions -> `phi`, compared structurally),
  device 1 (resolved callees, `bind_args`), device 6 (`_fold`: arithmetic on literals / single-definition constants).
  None alternatives (`x = <object> | None`, also through copies and inlined helpers that `return None` when they find
  nothing): device 2 + 5 - a definition contributes its None alternative to a use only if the CFG has a path from that
  definition to the use that avoids the other definitions of the name and every branch edge on which a test of the
  name excludes None (`_excludes_none`: `is None` / `is not None` / `== None` / `!= None` / truthiness under
  not/and/or, vocabulary None / not None); decided per definition, so "raise at the end", "None test in the caller",
  early returns, nested tests and one shared final test are the same thing.  Tests relating two names are not followed
  (the None alternative stays).
  `_ceval` - device 6 only: folds a *closed constant* expression of /repo (module-level table, literal `range(..)`),
  including `bytes([..])`/`list(..)`/`range(..)` and a single-generator comprehension whose iterable is itself such a
  constant spelled out by /repo; it is never given a value, length or byte string chosen by the checker, and it never
  enters a /repo function body (calls other than these builtins on constants are NotConst -> undecided).
  `_explore` - device 2 + 5: graph search of the CFG with the state "values of the locals that only ever hold literal
  True/False" (flag propagation; vocabulary = the code's own boolean flags, each True/False/unknown), branch edges pruned
  by three-valued `tv_eval` under those flag values; every other test stays symbolic (both edges followed; a test on a
  local updated in the candidate loop downgrades the verdict to undecided).  No data values, no loop unrolling (states
  are memoised per CFG node; for a loop over a literal collection of file views additionally per element of that
  literal, see R5).
* R1: 6 - DEFAULT_XOR_KEYS (module-level constant table) folded and compared completely with the reference key table.
* R2: 1, 3, 6 - needle located by role (data operand of the `xor()` feeding the resolved scanner call) as a value term,
  folded to a constant and compared with the serialisation of `Setting` computed from the *parsed* C definition
  (csverif.cdefs, reference-table side, not /repo code); block size = constant argument term of the `read()` on the
  file parameter that feeds the yielded block.  Field / enum base types are resolved through csverif.cdefs' base types
  plus the table of typedefs dissect.cstruct predefines (`_CSTRUCT_TYPEDEFS`: `uint16_t`, `unsigned short`, `__u16`
  ... - library model, a complete table comparison); enumerators without explicit value are numbered consecutively by
  the parser.  A type name outside both tables, a definition the parser does not find, or `index, type, length` not
  being the leading scalar fields -> the reference cannot be computed -> undecided.
* R3: 1, 2, 3 - argument terms of the scanner / `xor()` / `read()` / `seek()` calls compared structurally with the
  parameter terms and the loop-element term; CFG dominance and `reaches(.., avoiding=..)` for "seek precedes the read in
  every iteration, file untouched in between" and "no path through the scan loop skips the yield or leaves the loop".
* R4: 1, 2, 3 - search sites located by role (resolved callee, file argument term = file parameter or its XorEncoded
  view); key list term compared structurally with `<keys parameter> or DEFAULT_XOR_KEYS` (for the if-form: dominating
  conditions + three-valued evaluation of the guards under the named assumption "keys parameter falsy"); yielded
  tuple/dict terms compared structurally with the searched key term and the literal flag of the site kind.
  5 - a search whose file is (a component of) the element of an enclosing loop over a *collection of file views the
  analysed code spells out* (tuple/list literal, or a local bound once to such a literal and grown only by
  `.append(<element>)` statements before the loop: syntax-tree query + dominance) is one site per element of that
  collection: the loop-element term is replaced by the element term (`_subst`, device 3) before the comparisons above.
  Any other collection -> undecided.
* R5: 2, 5 (`_explore`: after a yield mark no search/retry target is reachable; CFG reachability for phase order;
  dominating condition for the all-keys option), 1, 3 (argument terms of the recursive call and of `make_byte_list`),
  6 (the literal `range(..)` in `make_byte_list` folded and compared with the 256-entry reference table; dependence on
  the exclude parameter is a syntax-tree query).  Search order for sites that share one loop over a collection of views
  ("every key on the XorEncoded view, then every key on the raw file"): position of the two elements in the literal /
  CFG reachability between the two `append` statements, and CFG reachability from the exits of the view loop back to its
  header (the loop is nested in another one, e.g. the key loop -> the raw file is searched under one key before the
  XorEncoded view is searched under the next).  In `_explore` such a loop is specialised per element of the literal
  collection (device 5: the vocabulary is the code's own literal; the iterate edge moves to any later element, loop
  variables that are literal booleans in the element are known) - no unrolling over a size chosen by the checker.
* R6: 1, 2, 3 - consumption of the candidate source (for loop / `next`) located by term equality; "first candidate
  wins" = no CFG path from the loop body back to the header / no second advance; returned term is a construction by the
  class parameter from `candidate[0]`, attribute stores between construction and return compared structurally with
  `candidate[1]["xorkey"|"xorencoded"]`; dominating conditions for the `next(.., default)` presence test.  A return
  statement shared by several search strategies returns one alternative per strategy (`phi`): the subject is every
  alternative built from the candidate, the alternatives of the other strategies are not subjects of R6 (as if each
  strategy had its own return statement); all alternatives are subjects of R7 "return value".
* R7: 1, 2, 3 - exit analysis on the CFG (return terms, `falls_off_end`, reachable raise classes, escaping
  `raise ValueError`), structural comparison of the forwarded argument terms in from_file / from_path / from_bytes.
* R8: imported obligations of `rules.c15.scanner_obligations` (technique documented there).
* R9: imported obligations of `rules.c09.r1..r3` (technique documented there).
* R10: 1, 3 - the key lists are located by role (iterable of the key loops, key argument of the retry, argument of
  `make_byte_list`) as value terms; every in-place modification in the block iterator (mutating method call, item
  store/delete, augmented assignment) whose receiver term is one of them is a subject.  `_freshness` classifies the
  origin of the receiver through reaching definitions and the return expressions of resolved package callees
  (syntax-tree classification, nothing evaluated): allocated during the call on every path (literal, comprehension,
  `sorted`/`list`/copy/slice/operator result) -> discharged; an object that outlives the call (module-level object or an
  element read out of one, result of a callee under a memoising decorator, mutable default argument, the caller's own
  list) -> violated; anything else (external call, attribute, unpacking) -> undecided.
* R11 (the XorEncoded view loses no bytes: every non-empty chunk that XorEncodedFile.read() reads from the underlying
  file goes through the decode step - a block that reaches the end of a payload whose length is not a multiple of the
  word size is complete only if the last, shorter word is decoded too): 1, 3 - the reads are located by role (`read` on
  a receiver whose value term is an attribute of the instance), the chunk is the local(s) the result is bound to plus
  their plain copies, the decode step is a statement with a resolved `utils.xor` call whose data operand mentions the
  chunk.  2 - CFG reachability from the read to "function left / same read again / chunk overwritten" avoiding the
  decode statements, with the branch edges removed that are infeasible under the named assumption "the chunk just
  read is not empty".  4 - branch tests on the chunk are decided in the length domain (`_len_test`): `read(k)`, k a
  constant of the code, returns 0..k bytes and every length occurs at the end of the data (library model of io), so a
  non-empty chunk has a length in the interval [1, k]; truthiness, `len(chunk) <op> <constant>`, comparison with
  b"" / None and not/and/or of those are mapped to sets of lengths (unions of intervals; and = intersection,
  or = union, not = complement - transfer rules, no length is enumerated); an edge is infeasible iff its set is
  empty.  A path that bypasses the decode step, uses the chunk nowhere and passes no test on the chunk outside that
  vocabulary -> violated; bypass only through other uses of the chunk (another decode path, a give-back seek, a
  content test) or no decode step located -> undecided.  That the decoded word reaches the returned bytes exactly
  once is C09.R2's accounting (imported, R9).
* R12 (what an extraction returns is a function of the payload at hand: no answer is looked up *by file object* in a
  store that outlives the call - the same file object, e.g. a recycled BytesIO or a scratch file, holds another payload
  the next time): 1 only (syntax-tree queries, resolved callees, call graph, who-may-write).  Scope = call-graph
  descendants of from_file / from_path / from_bytes plus all methods of the classes constructed on the way (file views
  are driven through the io protocol).  File objects are located by role: a parameter on which read/seek/tell/readinto
  is called, propagated backwards through argument binding into resolved package callees / constructors and through
  `self.<attr> = <param>` where the class calls the io protocol on `self.<attr>` (fixpoint over call sites).  Subjects:
  (a) item / get / setdefault / pop / membership lookups whose root object is module-level or class-level (not shadowed
  by an instance attribute) and that some function body of the package writes to (item store/delete, mutating method,
  rebinding under `global`); the key expression, with single-definition temporaries substituted, mentions a file object
  itself / `id()` / an attribute / a non-reading method of it -> violated; it mentions the file object only as receiver
  of a call that reads its bytes, or not at all -> undecided (whether the stored answer depends on an earlier payload is
  not followed); stores nobody writes at run time (constant tables) are not subjects.  (b) a memoising decorator
  (`_memoising`) on a function in scope one of whose parameters is a file object -> violated; memoised functions of
  other arguments are keyed by value and are not subjects.  (c) an attribute that a function in scope stores on a
  file-object parameter (assignment or `setattr` with a literal name) and a function in scope reads back (attribute load
  that is not a method call, `getattr`/`hasattr` with that literal) -> violated.  Nothing located -> discharged.
* R13 (finding F26: in all-keys mode the byte statistic that orders the left-over keys is counted over the whole view -
  the stream it reads is at its start when the counting begins, whatever the earlier phases read): 1, 2, 3.  The
  counting read is located by role: flow-insensitive def/use closure (`_flows`/`_closure`, device 3) backwards from the
  key argument of the recursive retry; a statement (loop header for its iterable) that mentions `<stream>.read` and
  writes a name in that closure is a read site; the stream is the receiver local.  Per reaching definition of that
  local and per alternative of its value term (parameter / view constructed by a resolved callee / opened stream):
  rewinds = `seek(0)` / `seek(0, SEEK_SET)` calls whose receiver term may be that object, and its binding when it is
  constructed at position 0 (`open`/`BytesIO`, or a package callee every return of which is dominated by
  `<result>.seek(0)` with no later use - syntax tree + dominance); moves = every other call outside the counting loop
  that has the object as receiver (position-neutral methods excepted) or argument.  Violated iff the CFG has a path to
  the read site on which a move of the object (or, for a parameter, the function entry: the caller's position) is
  followed by no rewind (`reaches(.., avoiding=rewinds + other bindings)`); branch edges whose test is decided by the
  dominating conditions of the binding on never-rebound parameters are removed first (device 2, named assumption =
  those conditions).  Origin of the object not followed -> undecided; no payload statistic at all (keys retried in a
  fixed order) -> discharged.
* R14 (all-keys mode tries *every* left-over key): 1, 3 - the key argument of the retry is followed through reaching
  definitions and classified by syntax: make_byte_list() result through element-keeping operations (sorted / list /
  tuple / reversed / copy / full slice / identity comprehension; in-place sort) -> discharged; a comprehension or
  `filter()` over / against the left-over list whose iterable or test mentions a name in the forward def/use closure of
  the stream reads (payload-derived data) -> violated (keys the statistic did not see are dropped); `[:N]` with a
  constant N below 256 - len(default keys) (reference table) -> violated; selection by payload-independent tests,
  concatenations, in-place removals, anything else -> undecided.
* R15 (file order of the candidates under one key: the scanner reports the hits of one read round in ascending order):
  1, 2, 3, 4 - yield sites inside the loop around the single `read()` on the file parameter; offset in polynomial normal
  form (`sympoly` after substituting single-definition temporaries) = fixed terms + match index; lemma L1
  (`find(sub, start)` returns -1 or an index >= start: a progression `i = buf.find(needle, i + k)`, k >= 1 constant,
  is strictly increasing; `rfind(needle, lo, <bound containing i>)` progresses downwards -> violated), terms other
  than the index not written in the search loop.  Two yield sites of one round (CFG path from one to the other avoiding
  the read and the definition of the position variable): sign of `offset - <tell() before the read>` per site from
  lemma L2 (`find` result tested against -1 is >= 0; reaching definitions at the yield) or from a dominating comparison
  `A < B` with A - B equal to that difference in normal form; later site negative while earlier site non-negative ->
  violated, the reverse -> discharged, anything else -> undecided.  Order between rounds is left to R8.
"""

from __future__ import annotations

import ast
import re

from csverif import cdefs as cdefs_mod
from csverif.astutil import (
    assignments_to, bind_args, body_walk, const_eval, dotted, fn_calls, module_env, NotConst, param_defaults, params, src, statements,
    strip_cast,
)
from csverif.cfg import ENTRY, EXIT, RAISE
from csverif.q import FuncView, dominating_conditions, raise_class, reaching_defs, tv_eval
from csverif.astutil import compare_parts

REF_DEFAULT_KEYS = [b"\x69", b"\x2e", b"\x00"]  # property statement: defaults 0x69, 0x2e, 0x00 in priority order
REF_PATCH_SIZE = 4096

FQ_SCANNER = "utils.iter_find_needle"
FQ_XOR = "utils.xor"
FQ_FIND = "beacon.find_beacon_config_bytes"
FQ_BLOCKS = "beacon.iter_beacon_config_blocks"
FQ_XORFILE = "xordecode.XorEncodedFile.from_file"
FQ_BYTELIST = "beacon.make_byte_list"
FQ_FROM_FILE = "beacon.BeaconConfig.from_file"
FQ_XORREAD = "xordecode.XorEncodedFile.read"


def run(ctx):
    rep = ctx.rep
    rep.explanation = (
        "Static analysis of the extraction spine in beacon.py (find_beacon_config_bytes, iter_beacon_config_blocks, "
        "BeaconConfig.from_file/from_path/from_bytes): default key table, needle derived from the Setting struct "
        "definition, value-flow agreement of the XOR key and scan position (flow-sensitive value terms), search-phase "
        "order and 'a found candidate ends the search' by path-sensitive CFG exploration over the boolean locals, "
        "first-candidate-wins (the candidate source is consumed once), exit analysis; a key list that is re-ordered in "
        "place is an object private to the call (R10: no memoised / module-level / caller-owned list carries the byte "
        "frequency order of one payload into the next extraction); the XorEncoded view drops no non-empty chunk it read "
        "from the underlying file - also not the last, shorter word of a payload (R11: CFG paths under 'chunk not "
        "empty', chunk tests decided in the length domain); no function an extraction runs takes an answer out of a store "
        "that outlives the call (module-/class-level object written at run time, memoised function, attribute planted on the "
        "caller's file object) looked up by the file object - the same file object may hold another payload the next time "
        "(R12: call graph, file objects located by their use of the io protocol, who-may-write); in all-keys mode the byte "
        "statistic that orders the left-over keys is counted from the start of the stream on every path (R13: rewinds / moves of "
        "the counted stream on the CFG), every left-over key is retried (R14: the retried list is make_byte_list() up to order, no "
        "payload-dependent selection or truncation) and the scanner reports the hits of one read round in ascending order (R15: "
        "find() progression and sign of the offsets relative to the read position). The scanner's offset algebra "
        "obligations of C15 are imported (R8). Decides these structural necessary conditions; does not decide that "
        "decoded settings equal the embedded ones for all payloads."
    )
    rep.not_decided = [
        "equality of extracted settings with the embedded block for all payloads/offsets/buffer sizes",
        "container handling (PE / XorEncoded) - see C09, C18 (here only: position algebra / rolling key / read accounting of "
        "the XorEncoded view as imported from C09 (R9) and 'no non-empty chunk is dropped' (R11); that read(n) keeps "
        "reading until n bytes are decoded or the data ends is not decided)",
        "frequency ordering of the left-over keys: decided are that the re-ordered list is private to the call (R10), that the "
        "statistic is counted from the start of the stream (R13) and that re-ordering drops no key (R14); that the sort key really "
        "ranks by frequency, and that XorEncodedFile.seek(0)/read() deliver the whole decoded view, is not decided here",
        "file order of candidates: only the order of the scanner's hits within one read round (R15); order across rounds rests on "
        "the carry-over obligations (R8); a scanner that is not `loop { read; find-progression; yield }` is undecided",
        "search phases merged into one loop over a collection of file views are followed only when the collection is a "
        "literal list/tuple (optionally grown by append() before the loop); other collections are undecided",
        "run-time-written long-lived stores that are consulted on the extraction path under a key that is not a file object "
        "(or is derived from bytes read from it): undecided (R12 does not follow what the stored value depends on); state kept "
        "in closures, function attributes or outside the package is not seen by R12",
    ]
    rep.trusted_base = ["CPython ast", "networkx dominators", "C-definition parser (csverif.cdefs)",
                        "io model for R11: read(k) returns between 0 and k bytes, any such length at the end of the data",
                        "R2: table of the typedefs dissect.cstruct predefines (uint16_t, unsigned short, __u16 ... -> base type)",
                        "R13: io model - seek(0) / seek(0, SEEK_SET) puts a stream at its start; open()/BytesIO() streams start at 0; any other "
                        "method call on, or call receiving, the stream may move it (tell/seekable/readable/fileno/flush excepted)",
                        "R15: bytes.find(sub, start) returns -1 or an index >= start; rfind(sub, lo, hi) an index < hi",
                        "R12: the package call graph (resolved callees) plus the methods of every class constructed during extraction cover "
                        "the code an extraction runs; decorators named *cache*/*memo* memoise by argument identity/equality"]
    rep.assumptions = ["iter_find_needle reports true offsets (C15 obligations, imported as R8)"]
    r1_r2(ctx)
    r3(ctx)
    r4_r5(ctx)
    r6_r7(ctx)
    r8(ctx)
    r10(ctx)
    r11(ctx)
    r12(ctx)
    r13(ctx)
    r14(ctx)
    r15(ctx)
    # blocks inside XorEncoded stages are found by scanning and then re-reading the decoding file view: its position
    # algebra and nonce chaining (C09.R1-R3) are necessary conditions here as well
    from rules import c09

    for fn in (c09.r1, c09.r2, c09.r3):
        ctx.import_obligations("R9", fn)


# ============================================================================ value terms (candidate for csverif.q)
# ("param", name) ("const", typename, value) ("global", dotted) ("call", id) ("elem", id(for stmt)) ("item", base, i)
# ("key", base, k) ("tuple", t...) ("dict", ((k, t), ...)) ("or", t...) ("and", t...) ("not", t) ("attr", base, name)
# ("with", t) ("phi", (t, ...)) ("opaque", text)
_MUTATORS = {"update", "setdefault", "pop", "popitem", "clear", "append", "extend", "insert", "remove", "sort", "reverse", "__setitem__", "__delitem__"}


def _const(v):
    return ("const", type(v).__name__, v)


def _phi(alts):
    flat = []
    for a in alts:
        for x in (a[1] if a[0] == "phi" else (a,)):
            if x not in flat:
                flat.append(x)
    if len(flat) == 1:
        return flat[0]
    return ("phi", tuple(sorted(flat, key=repr)))


def _alts(t):
    return list(t[1]) if t[0] == "phi" else [t]


def _item(base, i):
    if base[0] == "phi":
        return _phi([_item(a, i) for a in base[1]])
    if base[0] == "tuple" and isinstance(i, int) and -(len(base) - 1) <= i < len(base) - 1:
        return base[1:][i]
    return ("item", base, i)


def _key(base, k):
    if base[0] == "phi":
        return _phi([_key(a, k) for a in base[1]])
    if base[0] == "dict":
        for kk, v in base[1]:
            if kk == k:
                return v
    return ("key", base, k)


def _mentions(t, sub) -> bool:
    if t == sub:
        return True
    return isinstance(t, tuple) and any(_mentions(x, sub) for x in t if isinstance(x, tuple))


def _is_term(x) -> bool:
    return isinstance(x, tuple) and bool(x) and isinstance(x[0], str)


def _subst(t, old, new):
    """term t with every occurrence of the term `old` replaced by `new` (projections re-normalised)"""
    if t == old:
        return new
    if not _is_term(t) or t[0] == "const":
        return t
    h = t[0]
    if h == "item":
        return _item(_subst(t[1], old, new), t[2])
    if h == "key":
        return _key(_subst(t[1], old, new), t[2])
    if h == "dict":
        return ("dict", tuple((k, _subst(x, old, new)) for k, x in t[1]))
    if h == "phi":
        return _phi([_subst(a, old, new) for a in t[1]])
    if h in ("tuple", "or", "and", "not", "attr", "with"):
        r = (h,) + tuple(_subst(x, old, new) if _is_term(x) else x for x in t[1:])
        if h == "not" and r[1][0] == "const":  # constant folding of the negated literal
            return _const(not r[1][2])
        return r
    return t


def _understood(t) -> bool:
    """the term is fully modelled: no call result, no opaque part"""
    if t[0] in ("call", "opaque"):
        return False
    return all(_understood(x) for x in t[1:] if isinstance(x, tuple) and x and isinstance(x[0], str))


def _norm_test(test, flags):
    """`flag is True` / `flag == False` / ... on a constant boolean local -> `flag` / `not flag` (for tv_eval)"""
    if isinstance(test, ast.UnaryOp) and isinstance(test.op, ast.Not):
        return ast.UnaryOp(op=ast.Not(), operand=_norm_test(test.operand, flags))
    if isinstance(test, ast.BoolOp):
        return ast.BoolOp(op=test.op, values=[_norm_test(x, flags) for x in test.values])
    if isinstance(test, ast.Compare) and len(test.ops) == 1 and isinstance(test.ops[0], (ast.Is, ast.IsNot, ast.Eq, ast.NotEq)):
        l, r = test.left, test.comparators[0]
        if isinstance(l, ast.Constant):
            l, r = r, l
        if isinstance(l, ast.Name) and l.id in flags and isinstance(r, ast.Constant) and type(r.value) is bool:
            positive = r.value == isinstance(test.ops[0], (ast.Is, ast.Eq))
            return l if positive else ast.UnaryOp(op=ast.Not(), operand=l)
    return test


def _ceval(node, env=None):
    """const_eval plus the byte-table idioms `bytes([..])`, `list/tuple(..)`, `range(..)` and single-generator
    comprehensions over constant iterables.  Raises NotConst."""
    try:
        return const_eval(node, env)
    except NotConst:
        pass
    except (TypeError, ValueError, KeyError) as e:
        raise NotConst(str(e))
    if isinstance(node, (ast.List, ast.Tuple)):
        vals = [_ceval(e, env) for e in node.elts]
        return vals if isinstance(node, ast.List) else tuple(vals)
    if isinstance(node, ast.Call) and not node.keywords:
        name = dotted(node.func)
        if name == "range" and 1 <= len(node.args) <= 3:
            a = [_ceval(x, env) for x in node.args]
            if all(type(x) is int for x in a) and len(range(*a)) <= 65536:
                return list(range(*a))
        if name in ("bytes", "list", "tuple") and len(node.args) == 1:
            v = _ceval(node.args[0], env)
            try:
                return {"bytes": bytes, "list": list, "tuple": tuple}[name](v)
            except (TypeError, ValueError) as e:
                raise NotConst(str(e))
    if isinstance(node, (ast.ListComp, ast.GeneratorExp)) and len(node.generators) == 1:
        g = node.generators[0]
        if isinstance(g.target, ast.Name) and not g.ifs and not g.is_async:
            it = _ceval(g.iter, env)
            out = []
            for x in it:
                def env2(n, x=x):
                    if n == g.target.id:
                        return x
                    if env is None:
                        raise KeyError(n)
                    return env(n)
                out.append(_ceval(node.elt, env2))
            return out
    raise NotConst(src(node))


def _excludes_none(test, pol, name) -> bool:
    """does `test` evaluating to `pol` imply that local `name` is not None?  (`x is None`, `x is not None`, `x == None`,
    `x != None`, truthiness of x, under not/and/or; mirrored operands accepted)"""
    if isinstance(test, ast.UnaryOp) and isinstance(test.op, ast.Not):
        return _excludes_none(test.operand, not pol, name)
    if isinstance(test, ast.BoolOp):
        all_hold = isinstance(test.op, ast.And) == pol  # `and` true / `or` false: every operand has that truth value
        return (any if all_hold else all)(_excludes_none(x, pol, name) for x in test.values)
    if isinstance(test, ast.NamedExpr):
        return False
    if isinstance(test, ast.Name):
        return pol and test.id == name
    if isinstance(test, ast.Compare) and len(test.ops) == 1:
        l, r = test.left, test.comparators[0]
        if isinstance(l, ast.Constant):
            l, r = r, l
        if isinstance(l, ast.Name) and l.id == name and isinstance(r, ast.Constant) and r.value is None:
            if isinstance(test.ops[0], (ast.Is, ast.Eq)):
                return not pol
            if isinstance(test.ops[0], (ast.IsNot, ast.NotEq)):
                return pol
    return False


class _Val:
    """Flow-sensitive value terms of the expressions of one function."""

    def __init__(self, ctx, f):
        self.ctx, self.f, self.fn = ctx, f, f.node
        self.cfg = ctx.cfg(f)
        self.fv = FuncView.of(f.node)
        self.params = params(f.node)
        self.locals = set(self.params) | {n.id for n in body_walk(f.node) if isinstance(n, ast.Name) and isinstance(n.ctx, ast.Store)}
        a = f.node.args
        for x in (a.vararg, a.kwarg):
            if x is not None:
                self.locals.add(x.arg)
        self.node = {}  # id -> ast node of ("call", id) / ("elem", id)
        self._active = set()
        self._nn_edges = {}  # local name -> CFG branch edges on which it is known not to be None
        # locals whose object is changed in place somewhere (item/attribute stores, mutating method calls): a literal
        # seen at their definition does not describe their later content
        self.mutated = set()
        for n in body_walk(f.node):
            b = None
            if isinstance(n, ast.Subscript) and isinstance(n.ctx, (ast.Store, ast.Del)):
                b = n.value
            elif isinstance(n, ast.Call) and isinstance(n.func, ast.Attribute) and n.func.attr in _MUTATORS:
                b = n.func.value
            elif isinstance(n, ast.AugAssign):
                b = n.target
            if isinstance(b, ast.Name):
                self.mutated.add(b.id)

    # ------------------------------------------------------------------------------------------------ expressions
    def term(self, e, at=None, depth=0):
        if e is None:
            return _const(None)
        e = strip_cast(e)
        at = at if at is not None else e
        if depth > 24:
            return ("opaque", src(e))
        d1 = depth + 1
        if isinstance(e, ast.Constant):
            return _const(e.value)
        if isinstance(e, ast.Name):
            return self._name(e, at, d1)
        if isinstance(e, ast.NamedExpr):
            return self.term(e.value, at, d1)
        if isinstance(e, (ast.BinOp, ast.UnaryOp)) and not (isinstance(e, ast.UnaryOp) and isinstance(e.op, ast.Not)):
            v = self._fold(e, at, d1)
            if v is not None:
                return v
            return ("opaque", src(e))
        if isinstance(e, (ast.Tuple, ast.List)):
            if any(isinstance(x, ast.Starred) for x in e.elts):
                return ("opaque", src(e))
            return ("tuple",) + tuple(self.term(x, at, d1) for x in e.elts)
        if isinstance(e, ast.Dict):
            if any(not isinstance(k, ast.Constant) for k in e.keys):
                return ("opaque", src(e))
            return ("dict", tuple((k.value, self.term(v, at, d1)) for k, v in zip(e.keys, e.values)))
        if isinstance(e, ast.Attribute):
            d = dotted(e)
            if d is not None and d.split(".")[0] not in self.locals:
                return ("global", d)
            return ("attr", self.term(e.value, at, d1), e.attr)
        if isinstance(e, ast.Subscript):
            base = self.term(e.value, at, d1)
            if isinstance(e.slice, ast.Slice):
                return ("opaque", src(e))
            idx = self.term(e.slice, at, d1)
            if idx[0] == "const" and idx[1] == "int":
                return _item(base, idx[2])
            if idx[0] == "const" and idx[1] == "str":
                return _key(base, idx[2])
            return ("opaque", src(e))
        if isinstance(e, ast.Call):
            if (isinstance(e.func, ast.Attribute) and e.func.attr == "get" and len(e.args) == 1 and not e.keywords
                    and isinstance(e.args[0], ast.Constant) and isinstance(e.args[0].value, str)):
                base = self.term(e.func.value, at, d1)
                if base[0] in ("item", "key", "elem", "dict", "phi"):  # a mapping reached through the tracked values
                    return _key(base, e.args[0].value)
            if dotted(e.func) == "dict" and not e.args and e.keywords and all(k.arg is not None for k in e.keywords) and "dict" not in self.locals:
                return ("dict", tuple((k.arg, self.term(k.value, at, d1)) for k in e.keywords))
            self.node[id(e)] = e
            return ("call", id(e))
        if isinstance(e, ast.BoolOp):
            return ("or" if isinstance(e.op, ast.Or) else "and",) + tuple(self.term(v, at, d1) for v in e.values)
        if isinstance(e, ast.UnaryOp):
            return ("not", self.term(e.operand, at, d1))
        if isinstance(e, ast.IfExp):
            t, a, b = self.term(e.test, at, d1), self.term(e.body, at, d1), self.term(e.orelse, at, d1)
            if t == a:  # `x if x else y` is `x or y`
                return ("or", a, b)
            if t == ("not", b):  # `y if not x else x`
                return ("or", b, a)
            return _phi([a, b])
        return ("opaque", src(e))

    def _fold(self, e, at, depth):
        """Arithmetic on constants (incl. single-definition local constants)."""
        def env(name):
            if name in self.locals:
                t = self._name(ast.Name(id=name, ctx=ast.Load()), at, depth)
            else:
                t = self._global_const(name)
            if t is None or t[0] != "const":
                raise KeyError(name)
            return t[2]
        try:
            v = const_eval(e, env)
        except (NotConst, TypeError, ValueError, KeyError):
            return None
        if isinstance(v, (int, bytes, str, bool)) or v is None:
            return _const(v)
        return None

    def _global_const(self, name):
        mod = self.f.module
        if name in mod.consts:
            try:
                v = _ceval(mod.consts[name], module_env(mod))
            except NotConst:
                return None
            if isinstance(v, (int, bytes, str, bool)):
                return _const(v)
        return None

    def _name(self, e, at, depth):
        if e.id not in self.locals:
            return ("global", e.id)
        rd = reaching_defs(self.ctx, self.f, e.id, at)
        if not rd:
            return ("opaque", e.id)
        alts = []
        for st, v in rd:
            key = (e.id, id(st))
            if st is self.fn:
                alts.append(("param", e.id))
            elif key in self._active:
                alts.append(("opaque", "loop-carried " + e.id))
            else:
                self._active.add(key)
                try:
                    alts.append(self.term(v, st, depth) if v is not None else self._bound(st, e.id, depth))
                finally:
                    self._active.discard(key)
        if e.id in self.mutated:
            alts = [("opaque", "container changed in place") if a[0] in ("dict", "tuple") else a for a in alts]
        # None alternatives that cannot arrive: a definition that may bind None (directly, or through a copy
        # `x = tmp` with tmp = <object> | None) contributes None only if some path from it to the use passes no branch
        # edge on which a test of this name excludes None (`x is None` false edge, `x is not None` / `x` true edge ...).
        # Decided per definition on the CFG, so early exits, nested ifs and a shared final test are the same thing.
        none = _const(None)
        t = _phi(alts)
        if t[0] == "phi" and none in t[1]:
            kept = []
            for a, (st, _v) in zip(alts, rd):
                if none in _alts(a) and not self._none_arrives(e.id, at, st):
                    rest = [x for x in _alts(a) if x != none]
                    if rest:
                        kept.append(_phi(rest))
                else:
                    kept.append(a)
            if kept:
                t = _phi(kept)
        return t

    def _def_node(self, st):
        if st is self.fn:
            return ENTRY
        ds = st if isinstance(st, ast.stmt) else self.fv.stmt_of(st)
        if ds is None or not self.cfg.has(ds):
            return None
        return self.cfg.edge_node(ds, "iter") if isinstance(ds, (ast.For, ast.AsyncFor)) else self.cfg.node(ds)

    def _not_none_edges(self, name):
        """branch edges of the CFG on which a test of local `name` has just excluded None"""
        if name not in self._nn_edges:
            out = []
            for s in self.cfg.stmt.values():
                if isinstance(s, (ast.If, ast.While)):
                    for label, pol in (("true", True), ("false", False)):
                        if _excludes_none(s.test, pol, name):
                            out.append(self.cfg.edge_node(s, label))
            self._nn_edges[name] = out
        return self._nn_edges[name]

    def _none_arrives(self, name, at, def_stmt) -> bool:
        """can the value bound to `name` by `def_stmt` reach the use `at` without passing a None-excluding test of
        `name`?  (CFG reachability avoiding those branch edges and the other definitions of the name)"""
        cfg = self.cfg
        use, dn = self.stmt_node(at), self._def_node(def_stmt)
        if use is None or dn is None:
            return True
        others = [n for n in (self._def_node(st) for st, _v in assignments_to(self.fn, name)) if n is not None and n != dn]
        if name in self.params and dn != ENTRY:
            others.append(ENTRY)
        return cfg.reaches(dn, use, avoiding=others + self._not_none_edges(name))

    def _bound(self, st, name, depth):
        def proj(target, base):
            if isinstance(target, ast.Name):
                return base if target.id == name else None
            if isinstance(target, (ast.Tuple, ast.List)) and not any(isinstance(x, ast.Starred) for x in target.elts):
                for i, t in enumerate(target.elts):
                    r = proj(t, _item(base, i))
                    if r is not None:
                        return r
            return None

        if isinstance(st, (ast.For, ast.AsyncFor)):
            self.node[id(st)] = st
            r = proj(st.target, ("elem", id(st)))
            return r if r is not None else ("opaque", name)
        if isinstance(st, ast.Assign):
            for t in st.targets:
                r = proj(t, self.term(st.value, st, depth))
                if r is not None:
                    return r
        if isinstance(st, (ast.With, ast.AsyncWith)):
            for it in st.items:
                if it.optional_vars is not None and dotted(it.optional_vars) == name:
                    return ("with", self.term(it.context_expr, st, depth))
        return ("opaque", name)

    # ------------------------------------------------------------------------------------------------ queries
    def call_of(self, t):
        return self.node.get(t[1]) if t[0] == "call" else None

    def callee_fq(self, call):
        cal = self.ctx.rs.resolve_call(self.f, call)
        if cal.kind == "func" and cal.func is not None:
            return cal.func.fq
        return cal.fq or ""

    def args(self, call, method=False):
        """callee parameter -> argument expression (defaults filled in), in the order of the callee's signature, for a
        call that resolves to a package function."""
        cal = self.ctx.rs.resolve_call(self.f, call)
        if cal.kind != "func" or cal.func is None:
            return None
        b = bind_args(call, cal.func.node, skip_self=method)
        order = params(cal.func.node)[1 if method else 0:]
        return {p: b.get(p) for p in order}

    def is_call_to(self, t, fq):
        return all(a[0] == "call" and self.callee_fq(self.node[a[1]]) == fq for a in _alts(t))

    def calls(self, fq):
        return [c for c in fn_calls(self.fn) if self.callee_fq(c) == fq]

    def loops_over(self, call):
        """for loops whose iterable is (a cast / temporary of) the value of `call`."""
        want = ("call", id(call))
        return [st for st in statements(self.fn) if isinstance(st, (ast.For, ast.AsyncFor)) and self.term(st.iter, st) == want]

    def stmt_node(self, n):
        st = self.fv.stmt_of(n)
        return self.cfg.node(st) if st is not None and self.cfg.has(st) else None

    def show(self, t, depth=0):
        """Rendering of a term for details (no names of locals of the analysed code)."""
        if depth > 5:
            return "..."
        s = lambda x: self.show(x, depth + 1)
        h = t[0]
        if h == "param":
            return f"<parameter {t[1]}>"
        if h == "const":
            return repr(t[2])
        if h == "global":
            return t[1]
        if h == "call":
            c = self.node[t[1]]
            d = dotted(c.func)
            if d is not None and d.split(".")[0] not in self.locals - {"cls", "self"}:
                return f"{d}(...)"
            return f"<object>.{c.func.attr}(...)" if isinstance(c.func, ast.Attribute) else "<callable>(...)"
        if h == "elem":
            return "<loop element>"
        if h == "item":
            return f"{s(t[1])}[{t[2]}]"
        if h == "key":
            return f"{s(t[1])}[{t[2]!r}]"
        if h == "tuple":
            return "(" + ", ".join(s(x) for x in t[1:]) + ")"
        if h == "dict":
            return "{" + ", ".join(f"{k!r}: {s(v)}" for k, v in t[1]) + "}"
        if h in ("or", "and"):
            return "(" + f" {h} ".join(s(x) for x in t[1:]) + ")"
        if h == "not":
            return "not " + s(t[1])
        if h == "attr":
            return f"{s(t[1])}.{t[2]}"
        if h == "with":
            return f"<with {s(t[1])}>"
        if h == "phi":
            return " | ".join(s(x) for x in t[1])
        if h == "opaque":
            return "<an expression this rule does not follow>"
        return "?"


def _trivial(st) -> bool:
    """A statement that cannot raise (its exceptional CFG edge is infeasible)."""
    if isinstance(st, (ast.Pass, ast.Break, ast.Continue, ast.Global, ast.Nonlocal)):
        return True
    if isinstance(st, ast.Assign):
        return isinstance(st.value, ast.Constant) and all(isinstance(t, ast.Name) for t in st.targets)
    if isinstance(st, ast.AnnAssign):
        return (st.value is None or isinstance(st.value, ast.Constant)) and isinstance(st.target, ast.Name)
    return False


def _receiver_is(v, call, t_want, attr) -> bool:
    return isinstance(call.func, ast.Attribute) and call.func.attr == attr and v.term(call.func.value, call) == t_want


# ============================================================================ R1 / R2
# Library model (reference-table side, not /repo code): the typedefs dissect.cstruct predefines on top of the base types
# csverif.cdefs knows (cstruct.typedefs, "Common C types" / "Windows types" / "GNU C types" / "IDA types" / "Other
# convenience types"); name -> base type.  A type name outside both tables -> the reference is not computed (undecided).
_CSTRUCT_TYPEDEFS = {
    "signed char": "int8", "unsigned char": "char", "short": "int16", "signed short": "int16", "unsigned short": "uint16",
    "int": "int32", "signed int": "int32", "unsigned int": "uint32", "long": "int32", "signed long": "int32", "unsigned long": "uint32",
    "long long": "int64", "signed long long": "int64", "unsigned long long": "uint64",
    "LONG32": "int32", "LONG64": "int64", "INT8": "int8", "INT16": "int16", "INT32": "int32", "INT64": "int64",
    "UINT8": "uint8", "UINT16": "uint16", "UINT32": "uint32", "UINT64": "uint64",
    "__int8": "int8", "__int16": "int16", "__int32": "int32", "__int64": "int64",
    "unsigned __int8": "uint8", "unsigned __int16": "uint16", "unsigned __int32": "uint32", "unsigned __int64": "uint64",
    "int8_t": "int8", "int16_t": "int16", "int32_t": "int32", "int64_t": "int64",
    "uint8_t": "uint8", "uint16_t": "uint16", "uint32_t": "uint32", "uint64_t": "uint64",
    "_BYTE": "uint8", "_WORD": "uint16", "_DWORD": "uint32", "_QWORD": "uint64",
    "u1": "uint8", "u2": "uint16", "u4": "uint32", "u8": "uint64", "__u8": "uint8", "__u16": "uint16", "__u32": "uint32", "__u64": "uint64",
    "ushort": "uint16", "uint": "uint32", "ulong": "uint32",
}


def _ctype_size(cd, t, depth=0):
    """(size, signed) of a C type name of the parsed definitions: base types and enums as csverif.cdefs resolves them,
    plus the typedefs dissect.cstruct predefines (also as the base type of an enum).  None: unknown type."""
    ts = cd.type_size(t)
    if ts is not None:
        return ts
    t = " ".join(t.split())
    if t in _CSTRUCT_TYPEDEFS:
        return cdefs_mod.BASE_TYPES.get(_CSTRUCT_TYPEDEFS[t])
    if t in cd.enums and depth < 4:
        return _ctype_size(cd, cd.enums[t].base, depth + 1)
    return None


def _header_ref(cd, setting, values):
    """Serialisation of the leading scalar fields of `Setting` named in `values` (in the order of the parsed struct
    definition, endianness of the cstruct instance) followed by the first (zero) byte of a big-endian short value.
    -> (bytes, None) or (None, why) when the definition is outside the C-definition model (unknown type name, the
    named fields are not the leading scalar fields, an enumerator that is not defined)."""
    out, seen = b"", []
    for fl in setting.fields:
        if fl.name not in values:
            break
        ts = _ctype_size(cd, fl.type)
        if ts is None or fl.count is not None:
            return None, f"field `{fl.name}` has type `{fl.type}`{'[..]' if fl.count is not None else ''}, which is not a scalar type this model knows"
        if values[fl.name] is None:
            return None, f"the enumerator for field `{fl.name}` (SETTING_PROTOCOL / TYPE_SHORT) is not defined"
        try:
            out += int(values[fl.name]).to_bytes(ts[0], "big" if cd.endian == ">" else "little", signed=ts[1] and values[fl.name] < 0)
        except OverflowError:
            return None, f"value {values[fl.name]} does not fit field `{fl.name}`"
        seen.append(fl.name)
    if set(seen) != set(values):
        return None, "struct Setting does not start with the scalar fields " + ", ".join(values) + " (found: " + ", ".join(seen) + ")"
    return out + b"\x00", None


def r1_r2(ctx):
    mod = ctx.repo.module("beacon")
    node = ctx.repo.const("beacon.DEFAULT_XOR_KEYS")
    try:
        val = list(_ceval(node, module_env(mod)))
    except (NotConst, TypeError):
        val = None
    if val is None:
        ctx.undecided("R1", "TABLE", "beacon.py::DEFAULT_XOR_KEYS", "default key table", f"DEFAULT_XOR_KEYS is not a constant table this rule can evaluate: {src(node)[:80]}", node)
    else:
        ctx.ob("R1", "TABLE", "beacon.py::DEFAULT_XOR_KEYS", "default key table", val == REF_DEFAULT_KEYS,
               f"DEFAULT_XOR_KEYS evaluates to {val!r}; required {REF_DEFAULT_KEYS!r} in this order", node)
    f = ctx.repo.func(FQ_FIND)
    cd = ctx.cdefs("beacon").get("cs_struct")
    if cd is None:
        ctx.rep.error("anchor vanished: cs_struct definitions in beacon.py")
        return
    missing = [n for n in ("BeaconSetting", "SettingsType") if n not in cd.enums] + ([] if "Setting" in cd.structs else ["Setting"])
    if missing:
        # the C-definition parser does not find the definitions the header is made of (a syntax it does not model)
        ctx.undecided("R2", "TABLE", f, "needle header", "definitions not found by the C-definition model: " + ", ".join(missing), f.node)
        return
    setting = cd.struct("Setting")
    bs, stype = cd.enum("BeaconSetting"), cd.enum("SettingsType")
    ref, ref_why = _header_ref(cd, setting, {
        "index": bs.by_name().get("SETTING_PROTOCOL"),
        "type": stype.by_name().get("TYPE_SHORT"),
        "length": 2,
    })
    v = _Val(ctx, f)
    if len(v.params) < 2:
        ctx.undecided("R2", "TABLE", f, "needle header", "find_beacon_config_bytes no longer takes (file, key)", f.node)
        return
    fh_t = ("param", v.params[0])
    endian = "big" if cd.endian == ">" else "little"
    # the needle: data operand of the xor() whose result is handed to the scanner
    scans = v.calls(FQ_SCANNER)
    if not scans:
        ctx.undecided("R2", "TABLE", f, "needle header", "no call of the needle scanner located in find_beacon_config_bytes", f.node)
    for sc in scans:
        a = v.args(sc) or {}
        nt = v.term(a.get("needle"), sc) if a.get("needle") is not None else ("opaque", "?")
        data_t = None
        if nt[0] == "call" and v.callee_fq(v.node[nt[1]]) == FQ_XOR:
            xa = v.args(v.node[nt[1]]) or {}
            if xa.get("data") is not None:
                data_t = v.term(xa["data"], v.node[nt[1]])
        elif nt[0] == "const":
            data_t = None
            ctx.ob("R2", "TABLE", f, "needle header", False, f"scan needle is the constant {nt[2]!r}, not the header XORed with the key", sc)
            continue
        if data_t is not None and data_t[0] == "global":
            data_t = v._global_const(data_t[1]) or data_t
        if data_t is None or data_t[0] != "const":
            ctx.undecided("R2", "TABLE", f, "needle header", "the scan needle is not xor(<constant header>, key): " + (v.show(data_t) if data_t else v.show(nt)), sc)
        elif ref is None:
            # the reference side cannot be computed: the definition of Setting uses a type / layout the C-definition
            # model does not know - nothing is claimed about the needle
            ctx.undecided("R2", "TABLE", f, "needle header", "serialisation of Setting(SETTING_PROTOCOL, TYPE_SHORT, length=2) cannot be computed from CS_DEF: " + ref_why, sc)
        else:
            ctx.ob("R2", "TABLE", f, "needle header", data_t[2] == ref,
                   f"scan needle (before XOR) is {data_t[2]!r}; serialisation of Setting(SETTING_PROTOCOL, TYPE_SHORT, length=2)+00 "
                   f"from CS_DEF ({endian}-endian) is {ref!r}", sc)
    # the block size: argument of the read() on the file that produces the yielded block
    reads = []
    for y in (n for n in body_walk(f.node) if isinstance(n, ast.Yield) and n.value is not None):
        yc = v.call_of(v.term(y.value, y))
        if yc is not None and v.callee_fq(yc) == FQ_XOR:
            rd = v.call_of(v.term((v.args(yc) or {}).get("data"), yc))
            if rd is not None and _receiver_is(v, rd, fh_t, "read") and not any(rd is x for x in reads):
                reads.append(rd)
    if not reads:
        ctx.undecided("R2", "TABLE", f, "block size", "no read() on the file parameter that feeds a yielded block located", f.node)
    for c in reads:
        st = v.term(c.args[0], c) if c.args and not c.keywords else ("opaque", "?")
        if st[0] == "global":
            st = v._global_const(st[1]) or st
        if st[0] == "const":
            ctx.ob("R2", "TABLE", f, "block size", st[1] == "int" and st[2] == REF_PATCH_SIZE, f"block size read is {st[2]!r} (4096 required)", c)
        else:
            ctx.undecided("R2", "TABLE", f, "block size", f"size of the block read is not a constant: {src(c)}", c)


# ============================================================================ R3
def r3(ctx):
    f = ctx.repo.func(FQ_FIND)
    v = _Val(ctx, f)
    cfg = v.cfg
    if len(v.params) < 2:
        ctx.undecided("R3", "AGREE", f, "scanner call", "find_beacon_config_bytes no longer takes (file, key)", f.node)
        return
    fh_p, key_p = v.params[0], v.params[1]
    fh_t, key_t = ("param", fh_p), ("param", key_p)
    scans = v.calls(FQ_SCANNER)
    if not scans:
        ctx.undecided("R3", "AGREE", f, "scanner call", "no call of iter_find_needle located: the search is implemented differently", f.node)
        return

    def fh_uses(exclude=()):
        """statements that touch the file: method calls on it, or calls that receive it"""
        out = []
        for c in fn_calls(f.node):
            if any(c is x for x in exclude):
                continue
            recv = isinstance(c.func, ast.Attribute) and v.term(c.func.value, c) == fh_t
            passed = any(v.term(a, c) == fh_t for a in list(c.args) + [k.value for k in c.keywords] if not isinstance(a, ast.Starred))
            if recv or passed:
                out.append(c)
        return out

    for sc in scans:
        a = v.args(sc)
        if a is None:
            ctx.undecided("R3", "AGREE", f, "scanner arguments", "scanner call could not be bound to its parameters", sc)
            continue
        fp_t = v.term(a.get("fp"), sc)
        so_t = v.term(a.get("start_offset"), sc)
        mo_t = v.term(a.get("max_offset"), sc)
        start_ok = so_t == _const(0)
        if so_t == _const(None):
            # scanning from the current position is scanning from 0 iff a seek(0) on the file dominates the scan
            scn = v.stmt_node(sc)
            for c in fn_calls(f.node):
                if _receiver_is(v, c, fh_t, "seek") and len(c.args) == 1 and not c.keywords and v.term(c.args[0], c) == _const(0):
                    sn = v.stmt_node(c)
                    if sn is not None and scn is not None and cfg.dominates(sn, scn) and not any(
                            (un := v.stmt_node(u)) is not None and un not in (sn, scn) and cfg.reaches(sn, un, avoiding=[scn]) and cfg.reaches(un, scn) for u in fh_uses(exclude=(c, sc))):
                        start_ok = True
        lim_ok = mo_t in (_const(0), _const(None), _const(False))
        ctx.ob("R3", "AGREE", f, "scanner arguments", fp_t == fh_t and start_ok and lim_ok,
               f"scanner runs over {v.show(fp_t)} from start_offset={v.show(so_t)} with max_offset={v.show(mo_t)} (required: the file parameter, 0, no limit)", sc)
        nt = v.term(a.get("needle"), sc)
        ncall = v.call_of(nt)
        if ncall is None or v.callee_fq(ncall) != FQ_XOR:
            if nt[0] in ("const", "param", "global"):
                ctx.ob("R3", "AGREE", f, "needle key", False, f"needle is {v.show(nt)}: not XORed with the key parameter", sc)
            else:
                ctx.undecided("R3", "AGREE", f, "needle key", f"needle is not built by xor(): {v.show(nt)}", sc)
        else:
            xa = v.args(ncall) or {}
            kt = v.term(xa.get("key"), ncall)
            ctx.ob("R3", "AGREE", f, "needle key", kt == key_t, f"needle is XORed with {v.show(kt)} (must be parameter {key_p})", sc)
        loops = v.loops_over(sc)
        if len(loops) != 1:
            ctx.undecided("R3", "AGREE", f, "scan loop", f"the scanner result is not consumed by exactly one for loop ({len(loops)} found)", sc)
            continue
        loop = loops[0]
        header, it_edge = cfg.node(loop), cfg.edge_node(loop, "iter")
        pos_t = ("elem", id(loop))
        v.node[id(loop)] = loop
        ys = [y for y in ast.walk(loop) if isinstance(y, ast.Yield) and v.fv.enclosing(y, (ast.FunctionDef, ast.AsyncFunctionDef, ast.Lambda)) is None]
        if not ys:
            ctx.undecided("R3", "AGREE", f, "yielded block", "no yield inside the scan loop: blocks are delivered differently", loop)
            continue
        for y in ys:
            yt = v.term(y.value, y) if y.value is not None else _const(None)
            yc = v.call_of(yt)
            if yc is None or v.callee_fq(yc) != FQ_XOR:
                if yt[0] in ("const", "param", "global", "elem"):
                    ctx.ob("R3", "AGREE", f, "yielded block", False, f"yields {v.show(yt)} (must be xor(<block read at the hit>, {key_p}))", y)
                else:
                    ctx.undecided("R3", "AGREE", f, "yielded block", f"yielded value is not built by xor(): {v.show(yt)}", y)
                continue
            xa = v.args(yc) or {}
            kt = v.term(xa.get("key"), yc)
            ctx.ob("R3", "AGREE", f, "yielded block key", kt == key_t, f"block is un-XORed with {v.show(kt)} (must be parameter {key_p})", y)
            dt = v.term(xa.get("data"), yc)
            rd = v.call_of(dt)
            if rd is None or not _receiver_is(v, rd, fh_t, "read"):
                if dt[0] in ("const", "param", "global", "elem"):
                    ctx.ob("R3", "AGREE", f, "block read", False, f"un-XORed data is {v.show(dt)}, not a block read from the file", y)
                else:
                    ctx.undecided("R3", "AGREE", f, "block read", f"the un-XORed data is not a read() on the file parameter: {v.show(dt)}", y)
                continue
            sz = v.term(rd.args[0], rd) if rd.args and not rd.keywords else ("opaque", "?")
            if sz[0] == "global":
                sz = v._global_const(sz[1]) or sz
            if sz[0] == "const":
                ctx.ob("R3", "AGREE", f, "block read size", sz == _const(REF_PATCH_SIZE), f"block read size is {sz[2]!r} (must be {REF_PATCH_SIZE})", rd)
            else:
                ctx.undecided("R3", "AGREE", f, "block read size", f"block read size is not constant: {src(rd)}", rd)
            # the read happens at the hit: a seek(<hit>) on the file precedes it in the same iteration, nothing that
            # moves the file position in between
            rn = v.stmt_node(rd)
            seeks = [c for c in fn_calls(f.node) if _receiver_is(v, c, fh_t, "seek") and any(c is x for x in ast.walk(loop))]
            good, bad = [], []
            for c in seeks:
                pa = list(c.args) + [None, None]
                off = pa[0] if c.args else next((k.value for k in c.keywords if k.arg in ("offset", "pos", "target", "cookie")), None)
                wh = pa[1] if len(c.args) > 1 else next((k.value for k in c.keywords if k.arg == "whence"), None)
                wt = v.term(wh, c) if wh is not None else _const(0)
                abs_ok = wt in (_const(0), ("global", "io.SEEK_SET"), ("global", "os.SEEK_SET"), ("global", "SEEK_SET"))
                sn = v.stmt_node(c)
                if sn is None or rn is None or not (cfg.reaches(sn, rn, avoiding=[header]) or sn == rn):
                    continue
                (good if off is not None and v.term(off, c) == pos_t and abs_ok else bad).append(c)
            if not seeks:
                ctx.undecided("R3", "AGREE", f, "seek to the hit", "no seek() on the file in the scan loop: the block is positioned differently", loop)
            else:
                ok = False
                detail = "no seek to the scanner's offset precedes the block read"
                for c in good:
                    sn = v.stmt_node(c)
                    every = not cfg.reaches(it_edge, rn, avoiding=[sn, header])
                    between = [u for u in fh_uses(exclude=(c, rd)) if (un := v.stmt_node(u)) is not None and un not in (sn, rn, header)
                               and cfg.reaches(sn, un, avoiding=[header]) and cfg.reaches(un, rn, avoiding=[header])]
                    if every and not between:
                        ok = True
                        detail = "every iteration seeks to the scanner's offset (absolute) before reading the block; nothing touches the file in between"
                    elif not every:
                        detail = "the block read can be reached without the seek to the hit"
                    else:
                        detail = "the file is touched between the seek and the block read: " + ", ".join(src(u) for u in between)
                if not good and bad:
                    detail = "block read position: " + ", ".join(src(s) for s in bad) + " (must be exactly the scanner's offset, absolute)"
                ctx.ob("R3", "AGREE", f, "seek to the hit", ok, detail, loop)
        # every hit is yielded: no path through the scan loop body skips the yield (a filtered hit is a lost block) or
        # leaves the loop
        ynodes = [n for n in (v.stmt_node(y) for y in ys) if n is not None]
        skip = cfg.reaches(it_edge, header, avoiding=ynodes)
        leave = cfg.reaches(it_edge, EXIT, avoiding=[header])
        if skip:
            detail = "a needle hit can be skipped: " + " -> ".join(cfg.witness_path(it_edge, header, avoiding=ynodes)[-5:])
        elif leave:
            detail = "the scan loop can be left after a hit (later hits are lost): " + " -> ".join(cfg.witness_path(it_edge, EXIT, avoiding=[header])[-5:])
        else:
            detail = "each needle hit leads to a yielded block and the scan continues (no conditional skip, break or return in the scan loop)"
        ctx.ob("R3", "DOM", f, "every hit yielded", not skip and not leave, detail, loop)


# ============================================================================ R4 / R5
class _Sites:
    """The search sites of iter_beacon_config_blocks, located by role."""

    def __init__(self, ctx, f):
        self.ctx, self.f = ctx, f
        self.v = v = _Val(ctx, f)
        self.fobj_t = ("param", v.params[0])
        self.sites = []      # dict(call, kind, inner, outer, key_t, yields)
        self.unlocated = []  # (call, why)
        for call in v.calls(FQ_FIND):
            a = v.args(call)
            if a is None or len(a) < 2 or any(x is None for x in list(a.values())[:2]):
                self.unlocated.append((call, "arguments not understood"))
                continue
            names = list(a)
            file_t = v.term(a[names[0]], call)
            key_t = v.term(a[names[1]], call)
            # one search over a *collection of file views*: the searched file is (a component of) the element of an
            # enclosing loop over a literal collection -> one site per element of the collection
            views = [(None, file_t)]
            base = file_t[1] if file_t[0] == "item" and file_t[1][0] == "elem" else file_t
            vloop = v.node.get(base[1]) if base[0] == "elem" else None
            if isinstance(vloop, (ast.For, ast.AsyncFor)) and any(x is vloop for x in v.fv.ancestors(call)):
                els = self.view_elements(vloop)
                if els is None:
                    self.unlocated.append((call, f"searched file is {v.show(file_t)}: element of a collection of file views that is not a literal "
                                                 "list/tuple (optionally grown by append() before the loop)"))
                    continue
                views = [(dict(loop=vloop, index=i, els=[x for x, _p in els], pos=pos, old=base, new=et), _subst(file_t, base, et)) for i, (et, pos) in enumerate(els)]
            kinds = [self._kind(ft) for _vw, ft in views]
            if not views or None in kinds:
                bad = next((ft for (_vw, ft), k in zip(views, kinds) if k is None), file_t)
                self.unlocated.append((call, f"searched file is {v.show(bad)}: neither the file parameter nor its XorEncoded view"))
                continue
            inner = v.loops_over(call)
            if len(inner) != 1:
                self.unlocated.append((call, "the block search is not consumed by a for loop"))
                continue
            inner = inner[0]
            outer = None
            if key_t[0] == "elem":
                outer = v.node.get(key_t[1])
            ys = [y for y in ast.walk(inner) if isinstance(y, ast.Yield)]
            for (vw, ft), kind in zip(views, kinds):
                self.sites.append(dict(call=call, kind=kind, inner=inner, outer=outer, key_t=key_t, yields=ys, file_t=ft, view=vw))
        self.retries = v.calls(f.fq)

    def _kind(self, file_t):
        v = self.v
        if file_t == self.fobj_t:
            return "raw"
        if all(x[0] == "call" and v.callee_fq(v.node[x[1]]) == FQ_XORFILE and self._wraps_fobj(v.node[x[1]]) for x in _alts(file_t)):
            return "xorencoded"
        return None

    def view_elements(self, loop):
        """Elements of the collection a loop iterates, when that collection is spelled out by the analysed code: a
        tuple/list literal, or a local bound once to such a literal and afterwards only grown by `.append(<element>)`
        statements that precede the loop.  -> [(element term, position)] with position ("lit", i) | ("app", cfg node),
        or None (not such a collection)."""
        v, cfg = self.v, self.v.cfg
        it = strip_cast(loop.iter)
        lit, name = (it, None) if isinstance(it, (ast.Tuple, ast.List)) else (None, it.id if isinstance(it, ast.Name) else None)
        appends = []
        if lit is None:
            if name is None or name not in v.locals or name in v.params:
                return None
            rd = reaching_defs(self.ctx, self.f, name, loop)
            if len(rd) != 1 or len(assignments_to(v.fn, name)) != 1 or rd[0][1] is None:
                return None
            dst, lit = rd[0]
            lit = strip_cast(lit)
            if not isinstance(lit, (ast.Tuple, ast.List)):
                return None
            dn, header = v.stmt_node(dst), cfg.node(loop)
            if dn is None:
                return None
            # every other occurrence of the name is the loop iterable or the receiver of an append() statement
            for n in body_walk(v.fn):
                if not (isinstance(n, ast.Name) and n.id == name) or n is it or isinstance(n.ctx, ast.Store):
                    continue
                par = v.fv.parent.get(id(n))
                call = v.fv.parent.get(id(par)) if isinstance(par, ast.Attribute) and par.attr == "append" else None
                st = v.fv.parent.get(id(call)) if call is not None else None
                if not (isinstance(call, ast.Call) and call.func is par and isinstance(st, ast.Expr) and len(call.args) == 1 and not call.keywords
                        and not isinstance(call.args[0], ast.Starred) and isinstance(lit, ast.List)):
                    return None
                an = v.stmt_node(st)
                if an is None or not cfg.dominates(dn, an) or cfg.reaches(header, an) or not cfg.dominates(dn, header):
                    return None
                appends.append((call.args[0], st, an))
        if any(isinstance(x, ast.Starred) for x in lit.elts):
            return None
        at = loop if name is None else dst
        out = [(v.term(e, at), ("lit", i)) for i, e in enumerate(lit.elts)]
        out += [(v.term(e, st), ("app", an)) for e, st, an in appends]
        return out or None

    def may_precede(self, a, b) -> bool:
        """can the element at position a come before the element at position b in the collection?"""
        if a[0] == "lit":
            return b[0] == "app" or a[1] < b[1]
        return b[0] == "app" and a[1] != b[1] and self.v.cfg.reaches(a[1], b[1])

    def reentered(self, loop) -> bool:
        """can the loop be started again after it was left (it is nested in another loop)?"""
        cfg = self.v.cfg
        header, breaks = cfg.loops[id(loop)]
        return any(cfg.reaches(x, header) for x in [cfg.edge_node(loop, "exhaust")] + list(breaks))

    def _wraps_fobj(self, call):
        a = self.v.args(call, method=True)
        if a is None:
            return False
        first = next(iter(a.values()), None)
        return first is not None and self.v.term(first, call) == self.fobj_t

    def effective_keys(self, e, at):
        """Is expression e (evaluated at `at`) the effective key list `<xor_keys parameter> or DEFAULT_XOR_KEYS`?
        True / False (a key list, but not that one) / None (not understood)."""
        v = self.v
        P, D = ("param", v.params[1]), ("global", "DEFAULT_XOR_KEYS")
        if e is None:
            return None, _const(None)
        t = v.term(e, at)
        if t == ("or", P, D):
            return True, t
        if t[0] == "phi" and set(t[1]) == {P, D} and isinstance(strip_cast(e), ast.Name):
            # `if not xor_keys: xor_keys = DEFAULT_XOR_KEYS`: the default is installed exactly when the parameter is falsy
            name = strip_cast(e).id
            cfg = v.cfg
            use = v.stmt_node(at)
            for st, val in reaching_defs(self.ctx, self.f, name, at):
                if st is v.fn or val is None or v.term(val, st) != D:
                    continue
                conds = dominating_conditions(self.ctx, self.f, st)
                if any(txt == P[1] and pol is True for txt, pol, _n in conds):
                    return False, t  # the default replaces keys the caller did supply
                if not any(txt == P[1] and pol is False for txt, pol, _n in conds):
                    return None, t
                # ... and whenever the parameter is falsy: the falsy edge cannot reach the use without the assignment
                sn = cfg.node(st)
                for n, s in cfg.stmt.items():
                    if isinstance(s, ast.If):
                        for lab, want in (("true", True), ("false", False)):
                            edge = cfg.edge_node(s, lab)
                            val_p = tv_eval(s.test, {P[1]: False})
                            if val_p is want and cfg.dominates(edge, sn) and use is not None and cfg.reaches(edge, use, avoiding=[sn]):
                                return False, t
                return True, t
            return None, t
        if all(a in (P, D) or (a[0] == "const") for a in _alts(t)):
            return False, t
        return None, t


def _bool_flags(fn, v):
    """locals that only ever hold constant booleans: name -> [(stmt, value)]"""
    out = {}
    for name in sorted(v.locals - set(v.params)):
        defs = assignments_to(fn, name)
        if defs and all(isinstance(st, (ast.Assign, ast.AnnAssign)) and isinstance(val, ast.Constant) and type(val.value) is bool for st, val in defs):
            out[name] = defs
    return out


def _atoms(test):
    if isinstance(test, ast.UnaryOp) and isinstance(test.op, ast.Not):
        return _atoms(test.operand)
    if isinstance(test, ast.BoolOp):
        out = []
        for x in test.values:
            out.extend(_atoms(x))
        return out
    return [test]


def _mutated_names(root):
    """names (re)bound or mutated under root: assignment targets, bases of attribute/subscript stores, receivers of
    method calls"""
    out = set()
    for n in ast.walk(root):
        if isinstance(n, ast.Name) and isinstance(n.ctx, ast.Store):
            out.add(n.id)
        elif isinstance(n, (ast.Attribute, ast.Subscript)) and isinstance(n.ctx, ast.Store):
            b = n
            while isinstance(b, (ast.Attribute, ast.Subscript)):
                b = b.value
            if isinstance(b, ast.Name):
                out.add(b.id)
        elif isinstance(n, ast.Call) and isinstance(n.func, ast.Attribute):
            b = n.func.value
            while isinstance(b, (ast.Attribute, ast.Subscript)):
                b = b.value
            if isinstance(b, ast.Name):
                out.add(b.id)
    return out


def _view_binds(target, t, out):
    """constant booleans bound to the names of a loop target when the loop element is the term t"""
    if isinstance(target, ast.Name):
        if t[0] == "const" and t[1] == "bool":
            out[target.id] = t[2]
    elif isinstance(target, (ast.Tuple, ast.List)) and not any(isinstance(x, ast.Starred) for x in target.elts):
        for i, x in enumerate(target.elts):
            _view_binds(x, _item(t, i), out)
    return out


def _label(x, vi):
    """label of a mark/target: a plain string, or (view loop number, {element index: label}) for a construct inside a
    loop over a literal collection of views (the label then depends on the element the loop is at)"""
    if isinstance(x, tuple):
        return x[1].get(vi[x[0]])
    return x


def _explore(ctx, f, v, marks, targets, recorders, vloops=()):
    """Path-sensitive exploration of f's CFG.  State: (node, values of the constant boolean locals, set of marks passed,
    'an uninterpreted test on a recorder was passed', element index of every view loop).  `marks`: cfg node -> label
    added on arrival; `targets`: cfg node -> name (labels see `_label`).  `vloops`: the loops over a literal collection of
    file views [(for stmt, [element terms])]: such a loop is specialised per element of the collection the analysed code
    spells out (the iterate edge moves on to any later element - elements may be appended conditionally -, the loop
    variables that are constant booleans in the element are known while the loop is at it); the collection is the
    code's own finite vocabulary, nothing is unrolled over a size chosen here.  Branch edges that are infeasible under
    the known boolean locals are not followed; exceptional edges are followed only if a statement that may raise can
    follow.  Returns {(target name, mark): 'definite'|'unknown'}."""
    cfg = v.cfg
    flags = _bool_flags(f.node, v)
    fnames = sorted(flags)
    flag_set = {}
    for name, defs in flags.items():
        for st, val in defs:
            if cfg.has(st):
                flag_set[cfg.node(st)] = (fnames.index(name), val.value)
    vdesc = []
    for loop, els in vloops:
        binds = []
        for et in els:
            b = _view_binds(loop.target, et, {})
            binds.append({k: x for k, x in b.items() if len(assignments_to(f.node, k)) == 1 and k not in flags})
        inside = {id(x) for x in ast.walk(loop) if x is not loop}
        vdesc.append(dict(header=cfg.node(loop), it=cfg.edge_node(loop, "iter"), n=len(els), binds=binds, inside=inside))
    known = set(flags) | {k for d in vdesc for b in d["binds"] for k in b}
    by_id = {id(s): s for s in cfg.stmt.values()}
    handlers = {n for n, s in cfg.stmt.items() if isinstance(s, ast.ExceptHandler)}
    start = (ENTRY, tuple([None] * len(fnames)), frozenset(), False, tuple([None] * len(vdesc)))
    seen = {start}
    stack = [start]
    found = {}
    while stack:
        node, vals, passed, unk, vi = stack.pop()
        assume = {fnames[i]: x for i, x in enumerate(vals) if x is not None}
        for k, d in enumerate(vdesc):
            if vi[k] is not None:
                assume.update(d["binds"][vi[k]])
        for m in cfg.g.successors(node):
            unk2 = unk
            if m in handlers:
                nxt = [x for x in cfg.g.successors(node) if x not in handlers and x != RAISE]
                if nxt and all(x in cfg.stmt and _trivial(cfg.stmt[x]) for x in nxt) and not (node in cfg.stmt and isinstance(cfg.stmt[node], ast.Raise)):
                    continue
            if m[0] == "e" and m[2] in ("true", "false"):
                st = by_id.get(m[1])
                if st is not None and isinstance(st, (ast.If, ast.While)):
                    test = _norm_test(st.test, known)
                    val = tv_eval(test, assume)
                    if val is True and m[2] == "false" or val is False and m[2] == "true":
                        continue
                    if val is None and passed:
                        rec = set(fnames)
                        for p in passed:
                            rec |= recorders.get(p, set())
                        for a in _atoms(test):
                            if tv_eval(a, assume) is None and {n.id for n in ast.walk(a) if isinstance(n, ast.Name)} & rec:
                                unk2 = True
            # the view loops: which element is the loop at after this step?
            vis = [vi]
            for k, d in enumerate(vdesc):
                if m == d["it"]:
                    lo = -1 if vi[k] is None else vi[k]
                    vis = [x[:k] + (j,) + x[k + 1:] for x in vis for j in range(lo + 1, d["n"])]
                elif m == d["header"] and not (node == d["it"] or (len(node) > 1 and node[1] in d["inside"])):
                    vis = [x[:k] + (None,) + x[k + 1:] for x in vis]  # entered from outside: starts over
            vals2 = vals
            if m in flag_set:
                i, b = flag_set[m]
                vals2 = vals[:i] + (b,) + vals[i + 1:]
            for vi2 in vis:
                if m in targets and _label(targets[m], vi2) is not None:
                    for p in passed:
                        k = (_label(targets[m], vi2), p)
                        if not unk2:
                            found[k] = "definite"
                        else:
                            found.setdefault(k, "unknown")
                mk = _label(marks[m], vi2) if m in marks else None
                passed2 = passed | {mk} if mk is not None else passed
                s2 = (m, vals2, passed2, unk2, vi2)
                if s2 not in seen:
                    seen.add(s2)
                    stack.append(s2)
    return found


def r4_r5(ctx):
    f = ctx.repo.func(FQ_BLOCKS)
    if len(params(f.node)) < 4:
        ctx.undecided("R4", "AGREE", f, "block search sites", "iter_beacon_config_blocks no longer takes (file, keys, xordecode, all-keys)", f.node)
        return
    S = _Sites(ctx, f)
    v, cfg = S.v, S.v.cfg
    ps = v.params
    for call, why in S.unlocated:
        ctx.undecided("R4", "AGREE", f, "block search site", why, call)
    if not S.sites:
        ctx.undecided("R4", "AGREE", f, "block search sites", "no `for <block> in find_beacon_config_bytes(<file>, <key>)` search located", f.node)
    n_yields = 0
    for s in S.sites:
        kind, call, inner, outer = s["kind"], s["call"], s["inner"], s["outer"]
        tag = f"[{kind}]"
        # the key: element of a loop over the effective key list
        if outer is None or not any(a is outer for a in v.fv.ancestors(inner)):
            if s["key_t"][0] in ("const", "param", "global"):
                ctx.ob("R4", "AGREE", f, "searched key " + tag, False, f"the searched key is {v.show(s['key_t'])}, not the element of a loop over the key list", call)
            else:
                ctx.undecided("R4", "AGREE", f, "searched key " + tag, f"the searched key is not the variable of an enclosing key loop: {v.show(s['key_t'])}", call)
        else:
            eff, kt = S.effective_keys(outer.iter, outer)
            if eff is None:
                ctx.undecided("R4", "AGREE", f, "key list " + tag, f"the key loop iterates {v.show(kt)}: not recognised as `<{ps[1]}> or DEFAULT_XOR_KEYS`", outer)
            else:
                ctx.ob("R4", "AGREE", f, "key list " + tag, eff, f"keys are tried in the order of {v.show(kt)} (required: the caller's keys, DEFAULT_XOR_KEYS when none are given)", outer)
        if not s["yields"]:
            ctx.undecided("R4", "AGREE", f, "candidate yield " + tag, "no yield inside the block search loop: candidates are delivered differently", inner)
        for y in s["yields"]:
            n_yields += 1
            yt = v.term(y.value, y) if y.value is not None else _const(None)
            if s["view"] is not None:  # what is yielded while the view loop is at this element of the collection
                yt = _subst(yt, s["view"]["old"], s["view"]["new"])
            if not (yt[0] == "tuple" and len(yt) == 3 and yt[2][0] == "dict"):
                if yt[0] in ("const", "elem", "param", "global") or (yt[0] == "tuple" and len(yt) != 3):
                    ctx.ob("R4", "AGREE", f, "candidate yield " + tag, False, f"yields {v.show(yt)}, not (config_block, {{xorkey, xorencoded}})", y)
                else:
                    ctx.undecided("R4", "AGREE", f, "candidate yield " + tag, f"yielded value is not a literal (block, extra_info dict) pair: {v.show(yt)}", y)
                continue
            info = dict(yt[2][1])
            if set(info) != {"xorkey", "xorencoded"}:
                ctx.ob("R4", "AGREE", f, "candidate yield " + tag, False, f"extra_info keys are {sorted(info)} (documented: xorkey, xorencoded)", y)
                continue
            block_ok = yt[1] == ("elem", id(inner))
            recorded = info["xorkey"] == s["key_t"]
            flag = info["xorencoded"]
            flag_ok = flag == _const(kind == "xorencoded")
            wrong = [t for t, good in ((yt[1], block_ok), (info["xorkey"], recorded), (flag, flag_ok)) if not good]
            if wrong and not any(_understood(t) for t in wrong):
                ctx.undecided("R4", "AGREE", f, "candidate yield " + tag, "yielded block / xorkey / xorencoded flag are computed in a way that is not "
                              "followed: " + ", ".join(v.show(t) for t in wrong), y)
                continue
            ctx.ob("R4", "AGREE", f, "candidate yield " + tag, block_ok and recorded and flag_ok,
                   f"yields the found block={block_ok}; recorded xorkey is the searched key={recorded} ({v.show(info['xorkey'])}); "
                   f"file is the {'XorEncoded view' if kind == 'xorencoded' else 'raw file'} and xorencoded={v.show(flag)} -> {flag_ok}", y)
    # the retry: recursion with the left-over keys
    retries = []
    for call in S.retries:
        st = v.fv.stmt_of(call)
        a = v.args(call)
        if a is None or st is None or not cfg.has(st):
            ctx.undecided("R5", "AGREE", f, "all-keys retry", "recursive call not understood", call)
            continue
        retries.append((call, st, a))
    if n_yields + len(retries) > 0:
        ctx.rep.count("extraction_yield_sites", n_yields + len(retries), floor=3)
    # R5: once a candidate has been yielded no later phase may be entered
    marks, targets, recorders, vloops = {}, {}, {}, []

    def put(table, node, label, vw):
        """label of a construct of a search site; inside a view loop the label depends on the element the loop is at"""
        if vw is None:
            table[node] = label
            return
        k = next((i for i, (lp, _els) in enumerate(vloops) if lp is vw["loop"]), None)
        if k is None:
            k = len(vloops)
            vloops.append((vw["loop"], vw["els"]))
        cur = table.get(node)
        if not (isinstance(cur, tuple) and cur[0] == k):
            cur = table[node] = (k, {})
        cur[1][vw["index"]] = label

    for s in S.sites:
        vw = s["view"]
        for y in s["yields"]:
            n = v.stmt_node(y)
            if n is not None:
                put(marks, n, s["kind"], vw)
        nest = [lp for lp in ((vw["loop"] if vw is not None else None), s["outer"]) if lp is not None and any(a is lp for a in v.fv.ancestors(s["inner"]))]
        top = next((lp for lp in nest if all(lp is o or any(a is lp for a in v.fv.ancestors(o)) for o in nest)), s["inner"])
        targets_of = {t.id for lp in nest + [s["inner"]] for t in ast.walk(lp.target) if isinstance(t, ast.Name)}
        recorders.setdefault(s["kind"], set()).update(_mutated_names(top) - targets_of)
        put(targets, cfg.node(s["inner"]), "search:" + s["kind"], vw)
    for call, st, a in retries:
        targets[cfg.node(st)] = "retry"
    found = _explore(ctx, f, v, marks, targets, recorders, vloops) if marks and targets else {}

    def verdict(target, mark, text, good, bad, node):
        r = found.get((target, mark))
        if r is None:
            ctx.ob("R5", "DOM", f, text, True, good, node)
        elif r == "definite":
            ctx.ob("R5", "DOM", f, text, False, bad, node)
        else:
            ctx.undecided("R5", "DOM", f, text, bad + " - unless a test on a local that is updated in the candidate loop (not a constant boolean) prevents it; that bookkeeping is not understood", node)

    kinds = {s["kind"] for s in S.sites}
    if {"xorencoded", "raw"} <= kinds:
        raw = next(s for s in S.sites if s["kind"] == "raw")
        verdict("search:raw", "xorencoded", "raw search gated", "no path enters the raw-file search after a candidate was yielded from the XorEncoded view",
                "the raw-file search runs even when the XorEncoded search found a block", raw["inner"])
        verdict("search:xorencoded", "raw", "phase order enc<raw (candidates)", "no path enters the XorEncoded search after a raw candidate",
                "the XorEncoded search can run after a raw candidate was yielded", raw["inner"])
        for e in (s for s in S.sites if s["kind"] == "xorencoded"):
            for r in (s for s in S.sites if s["kind"] == "raw"):
                ev, rv = e["view"], r["view"]
                if ev is not None and rv is not None and ev["loop"] is rv["loop"]:
                    # two elements of one collection of views searched by the same loop: the raw search precedes the
                    # XorEncoded one iff the raw element can come first, or the loop over the views is started again
                    # after the raw element was searched (it is nested in another loop, e.g. the one over the keys)
                    swapped, again = S.may_precede(rv["pos"], ev["pos"]), S.reentered(rv["loop"])
                    back = swapped or again
                    why = ("the raw file can come before the XorEncoded view in the collection of searched views" if swapped else
                           "the loop over the searched views is nested in another loop and runs again after the raw file was searched: "
                           "the search order is not `every key on the XorEncoded view, then every key on the raw file`")
                    ctx.ob("R5", "DOM", f, "phase order enc<raw", not back, "XorEncoded view precedes the raw file in the collection of searched views and the loop "
                           "over the views is not repeated" if not back else "raw search can precede the XorEncoded search: " + why, rv["loop"])
                    continue
                back = cfg.reaches(cfg.node(r["inner"]), cfg.node(e["inner"]))
                ctx.ob("R5", "DOM", f, "phase order enc<raw", not back, "XorEncoded search precedes the raw search" if not back else "raw search can precede the XorEncoded search", r["inner"])
    elif S.sites and not S.unlocated:
        ctx.undecided("R5", "DOM", f, "raw search gated", f"only {sorted(kinds)} search sites located: the two-phase structure (XorEncoded view first, then the raw file) is not recognisable", f.node)
    for call, st, a in retries:
        for k in sorted(kinds):
            verdict("retry", k, f"all-keys retry gated [{k}]", f"no path enters the all-keys retry after a {k} candidate was yielded",
                    f"the all-keys retry runs although a {k} candidate was found", call)
        conds = dominating_conditions(ctx, f, call)
        gated = any(txt == ps[3] and pol is True for txt, pol, _n in conds)
        ctx.ob("R5", "DOM", f, "all-keys retry requested", gated, f"retry is dominated by `{ps[3]}` being true" if gated else f"all-keys retry is not gated by the `{ps[3]}` option", call)
        for s in S.sites:
            back = cfg.reaches(cfg.node(st), cfg.node(s["inner"]))
            ctx.ob("R5", "DOM", f, "phase order default<all", not back, "default-key phases precede the retry" if not back else "retry can precede a default-key phase", call, nontrivial=False)
        names = list(a)
        file_t = v.term(a[names[0]], call)
        keys_e = a.get(names[1])
        axk = v.term(a.get(ps[3]), call)
        xd = v.term(a.get(ps[2]), call)
        term = axk[0] == "const" and not axk[2]
        same_file = file_t == S.fobj_t
        xd_ok = xd in (("param", ps[2]), _const(True))
        kt = v.term(keys_e, call) if keys_e is not None else _const(None)
        kc = v.call_of(kt)
        # a re-ordered / copied list holds the same keys: look through sorted(..) / list(..) / tuple(..) / reversed(..)
        while (kc is not None and dotted(kc.func) in ("sorted", "list", "tuple", "reversed") and dotted(kc.func) not in v.locals
               and len(kc.args) == 1 and not isinstance(kc.args[0], ast.Starred)):
            kt = v.term(kc.args[0], kc)
            kc = v.call_of(kt)
        if kc is None or v.callee_fq(kc) != FQ_BYTELIST:
            if kt[0] in ("const", "param", "global", "or"):
                ctx.ob("R5", "AGREE", f, "all-keys retry keys", False, f"retry keys are {v.show(kt)}, not the left-over single-byte keys", call)
            else:
                ctx.undecided("R5", "AGREE", f, "all-keys retry keys", f"retry keys are not the result of make_byte_list(): {v.show(kt)}", call)
        else:
            ba = v.args(kc) or {}
            ex = next(iter(ba.values()), None)
            eff, et = S.effective_keys(ex, kc) if ex is not None else (None, _const(None))
            if eff is None:
                ctx.undecided("R5", "AGREE", f, "all-keys retry keys", f"left-over keys exclude {v.show(et)}: not recognised as the key list that was tried", kc)
            else:
                ctx.ob("R5", "AGREE", f, "all-keys retry keys", eff, f"left-over keys = all single bytes minus {v.show(et)} (must be exactly the key list that was tried first)", kc)
        ctx.ob("R5", "AGREE", f, "all-keys retry call", term and same_file and xd_ok,
               f"{ps[3]}=False in the recursion (bounded)={term}; same file={same_file}; {ps[2]} forwarded={xd_ok}", call)
        # the candidates of the retry are passed on
        fv = v.fv
        yf = fv.parent.get(id(call))
        passed_on = isinstance(yf, ast.YieldFrom)
        if not passed_on:
            for lp in v.loops_over(call):
                passed_on = passed_on or any(isinstance(y, ast.Yield) and y.value is not None and v.term(y.value, y) == ("elem", id(lp)) for y in ast.walk(lp))
        if passed_on:
            ctx.ob("R5", "AGREE", f, "all-keys retry result", True, "every candidate of the retry is yielded unchanged", call)
        else:
            ctx.undecided("R5", "AGREE", f, "all-keys retry result", "the recursion's candidates are not passed on by `yield from` or a yielding loop", call)
    if not retries:
        ctx.undecided("R5", "DOM", f, "all-keys retry", "no recursive retry with the left-over keys located", f.node)
    # make_byte_list: all 256 single bytes minus exclude
    mb = ctx.repo.func(FQ_BYTELIST)
    mv = _Val(ctx, mb)
    ranges = [c for c in ast.walk(mb.node) if isinstance(c, ast.Call) and dotted(c.func) == "range"]
    if not ranges:
        ctx.undecided("R5", "TABLE", mb, "range(256)", "make_byte_list does not enumerate a range()", mb.node)
    else:
        full = False
        for c in ranges:
            try:
                full = full or _ceval(c) == list(range(256))
            except NotConst:
                pass
        uses_ex = any(isinstance(n, ast.Name) and n.id == mv.params[0] and isinstance(n.ctx, ast.Load) for n in ast.walk(mb.node)) if mv.params else False
        ctx.ob("R5", "TABLE", mb, "range(256)", full and uses_ex, f"left-over keys enumerate range(256)={full} and depend on the exclude parameter={uses_ex}", mb.node)


# ============================================================================ R6 / R7
def _cls_construction(v, t):
    """the `cls(...)` call node if term t is a construction by the class parameter, else None"""
    c = v.call_of(t)
    if c is not None and isinstance(c.func, ast.Name) and v.params and c.func.id == v.params[0]:
        return c
    return None


def r6_r7(ctx):
    f = ctx.repo.func(FQ_FROM_FILE)
    v = _Val(ctx, f)
    cfg, fv = v.cfg, v.fv
    ps = v.params  # cls, fobj, xor_keys, all_xor_keys
    if len(ps) < 4:
        ctx.undecided("R6", "DOM", f, "candidate source", "from_file no longer takes (cls, file, keys, all-keys)", f.node)
        return
    srcs = v.calls(FQ_BLOCKS)
    if not srcs:
        ctx.undecided("R6", "DOM", f, "candidate source", "no call of iter_beacon_config_blocks located in from_file", f.node)
    for call in srcs:
        a = v.args(call) or {}
        names = list(a)
        # callee signature: (file, keys, xordecode, all-keys)
        fwd = (len(names) >= 4 and v.term(a[names[0]], call) == ("param", ps[1]) and v.term(a[names[1]], call) == ("param", ps[2])
               and v.term(a[names[3]], call) == ("param", ps[3]) and v.term(a[names[2]], call) == _const(True))
        ctx.ob("R7", "AGREE", f, "candidate source arguments", bool(fwd), "file and key options forwarded unchanged, XorEncoded search enabled" if fwd else
               "file / xor_keys / all_xor_keys are not forwarded unchanged to the block iterator (or xordecode is switched off)", call)
        # how is the candidate source consumed?
        want = ("call", id(call))
        loops = v.loops_over(call)
        nexts = [c for c in fn_calls(f.node) if isinstance(c.func, ast.Name) and c.func.id == "next" and "next" not in v.locals and c.args and v.term(c.args[0], c) == want]
        cands = []  # (candidate term, consumption cfg node, description)
        for lp in loops:
            v.node[id(lp)] = lp
            header, it_edge = cfg.node(lp), cfg.edge_node(lp, "iter")
            back = cfg.reaches(it_edge, header)
            ctx.ob("R6", "DOM", f, "first candidate wins", not back,
                   "no path from the candidate loop body back to the loop header: the first candidate is returned" if not back else
                   "the candidate loop can continue to a later candidate: " + " -> ".join(cfg.witness_path(it_edge, header)), lp)
            cands.append((("elem", id(lp)), it_edge, lp))
        for nx in nexts:
            n = v.stmt_node(nx)
            if n is None:
                continue
            others = [v.stmt_node(o) for o in nexts if o is not nx] + [cfg.node(lp) for lp in loops]
            again = cfg.reaches(n, n) or any(o is not None and cfg.reaches(o, n) for o in others)
            ctx.ob("R6", "DOM", f, "first candidate wins", not again,
                   "the candidate source is advanced once: the first candidate is used" if not again else "the candidate source can be advanced more than once before this candidate is taken", nx)
            # exhaustion must lead to the documented error, not StopIteration
            if len(nx.args) + len(nx.keywords) < 2:
                tr = [t for t in fv.ancestors(nx) if isinstance(t, ast.Try) and any(fv.stmt_of(nx) is x for b in t.body for x in ast.walk(b))
                      and any(h.type is None or any(dotted(x) in ("StopIteration", "Exception", "BaseException") for x in ast.walk(h.type)) for h in t.handlers)]
                ctx.ob("R7", "EXIT", f, "exhausted candidate source", bool(tr), "next() without default is protected by an except StopIteration" if tr else
                       "next() without a default: an exhausted candidate source raises StopIteration instead of falling through to ValueError", nx)
            cands.append((("call", id(nx)), n, nx))
        if not cands:
            ctx.undecided("R6", "DOM", f, "first candidate wins", "the candidate source is consumed neither by a for loop nor by next(): cannot tell which candidate is used", call)
            continue
        # the returned object is built from this candidate and carries its metadata
        n_ret = 0
        for r in cfg.return_stmts():
            if r.value is None:
                continue
            rt0 = v.term(r.value, r)
            for cand_t, cnode, cn in cands:
                rn = cfg.node(r)
                # a return statement shared by several search strategies (`result = A or-else B; return result`) returns
                # one alternative per strategy: the subject is the alternative built from this candidate - the others
                # are the returns of the other strategies, exactly as if each had its own return statement
                mine = [a for a in _alts(rt0) if _mentions_cand(v, a, cand_t)]
                if mine:
                    rts = mine
                elif cand_t[0] == "elem" and cfg.dominates(cnode, rn) and any(r is x for x in ast.walk(cn)):
                    rts = [rt0]
                else:
                    continue
                for rt in rts:
                    n_ret += 1
                    cons = _cls_construction(v, rt)
                    if cons is None:
                        ctx.undecided("R6", "AGREE", f, "candidate return", f"the value returned for a candidate is not a direct construction by {ps[0]}(...): {v.show(rt)}", r)
                        continue
                    arg0 = cons.args[0] if cons.args else (cons.keywords[0].value if cons.keywords and cons.keywords[0].arg else None)
                    b_ok = arg0 is not None and v.term(arg0, cons) == _item(cand_t, 0)
                    if cand_t[0] == "call":
                        # next(.., default): the candidate is only used where it is known not to be the default
                        conds = dominating_conditions(ctx, f, cons)
                        tested = False
                        for _txt, pol, tn in conds:
                            subj = tn.left if isinstance(tn, ast.Compare) else tn
                            if v.term(subj, fv.stmt_of(tn) or tn) == cand_t:
                                tested = True
                        if len(cn.args) + len(cn.keywords) >= 2:
                            ctx.ob("R6", "DOM", f, "candidate presence test", tested, "the candidate is used only under a test that tells it from next()'s default" if tested else
                                   "the result of next(.., default) is used without testing whether a candidate was found", cons)
                    # metadata: attribute stores on the constructed object between construction and return
                    meta, escaped = _attr_stores(ctx, f, v, r, cons)
                    want_meta = {"xorkey": _key(_item(cand_t, 1), "xorkey"), "xorencoded": _key(_item(cand_t, 1), "xorencoded")}
                    m_ok, m_und, parts = True, False, []
                    for attr, wt in want_meta.items():
                        vals = meta.get(attr)
                        if not vals:
                            if escaped:
                                m_und = True
                                parts.append(f"{attr}: not assigned directly (object is handed to other code)")
                            else:
                                m_ok = False
                                parts.append(f"{attr}: never set")
                        else:
                            good = all(t == wt for t in vals)
                            if not good and not any(t != wt and _understood(t) for t in vals):
                                m_und = True
                                parts.append(f"{attr} <- {', '.join(v.show(t) for t in vals)} (not understood)")
                                continue
                            m_ok = m_ok and good
                            parts.append(f"{attr} <- {', '.join(v.show(t) for t in vals)} ({'candidate metadata' if good else 'NOT the candidate metadata'})")
                    text = "return of the candidate config"
                    if b_ok and m_ok and m_und:
                        ctx.undecided("R6", "AGREE", f, text, "; ".join(parts), r)
                    else:
                        ctx.ob("R6", "AGREE", f, text, b_ok and m_ok,
                               f"returned config is {ps[0]}(<candidate block>)={b_ok}; " + "; ".join(parts), r)
        if n_ret == 0:
            ctx.undecided("R6", "AGREE", f, "return of the candidate config", "no return statement that is built from the candidate located", call)
    # R7: exits
    for r in cfg.return_stmts():
        if not cfg.reachable(cfg.node(r)):
            continue
        rt = v.term(r.value, r) if r.value is not None else _const(None)
        alts = _alts(rt)
        if all(_cls_construction(v, a) is not None for a in alts):
            ctx.ob("R7", "EXIT", f, "return value", True, f"returns an object constructed by {ps[0]}(...)", r)
        elif any(a[0] in ("const", "param", "global", "tuple", "dict") for a in alts):
            ctx.ob("R7", "EXIT", f, "return value", False, f"returns {v.show(rt)}: not a constructed BeaconConfig", r)
        else:
            ctx.undecided("R7", "EXIT", f, "return value", f"returned value is not recognisably a {ps[0]}(...) construction: {v.show(rt)}", r)
    ctx.ob("R7", "EXIT", f, "falls off end", not cfg.falls_off_end(), "function cannot fall off its end (would return None)" if not cfg.falls_off_end() else "a path returns None implicitly", f.node)
    escaping = []
    for r in cfg.raise_stmts():
        if r.exc is None or not cfg.reachable(cfg.node(r)):
            continue
        rc = raise_class(r)
        if rc is not None and rc.split(".")[0] in v.locals:
            ctx.undecided("R7", "EXIT", f, "raised exception", f"re-raises a local exception object: {src(r)}", r)
            continue
        ctx.ob("R7", "EXIT", f, "raised exception", rc == "ValueError", f"raises {rc} (documented: ValueError)", r)
        if rc == "ValueError" and cfg.g.has_edge(cfg.node(r), RAISE):
            escaping.append(r)
    ctx.ob("R7", "EXIT", f, "not found -> ValueError", bool(escaping) and not cfg.falls_off_end(),
           "when no candidate is returned the function leaves with ValueError" if escaping else "no reachable `raise ValueError` leaves the function", f.node)
    # the convenience entry points delegate to from_file
    for fq, wrap in (("beacon.BeaconConfig.from_path", "open"), ("beacon.BeaconConfig.from_bytes", "BytesIO")):
        g = ctx.repo.func(fq)
        gv = _Val(ctx, g)
        gp = gv.params
        calls = gv.calls(FQ_FROM_FILE)
        if len(calls) != 1:
            ctx.undecided("R7", "AGREE", g, "delegation to from_file", f"{len(calls)} calls of from_file located: the entry point is implemented differently", g.node)
            continue
        c = calls[0]
        a = gv.args(c, method=True)
        if a is None:
            ctx.undecided("R7", "AGREE", g, "delegation to from_file", "arguments of the from_file call not understood", c)
            continue
        names = list(a)
        if len(gp) < 4 or len(names) < 3:
            ctx.undecided("R7", "AGREE", g, "delegation to from_file", "signature of the entry point / from_file changed", c)
            continue
        kw_ok = gv.term(a[names[1]], c) == ("param", gp[2]) and gv.term(a[names[2]], c) == ("param", gp[3])
        ft = gv.term(a[names[0]], c)
        if ft[0] == "with":
            ft = ft[1]
        oc = gv.call_of(ft)
        src_ok = None
        sdetail = f"source is {gv.show(ft)}"
        if oc is not None:
            fn_name = dotted(oc.func) or ""
            if wrap == "open" and fn_name in ("open", "io.open") and fn_name.split(".")[0] not in gv.locals:
                pa = list(oc.args) + [None, None]
                path = pa[0] if oc.args else next((k.value for k in oc.keywords if k.arg == "file"), None)
                mode = pa[1] if len(oc.args) > 1 else next((k.value for k in oc.keywords if k.arg == "mode"), None)
                mt = gv.term(mode, oc) if mode is not None else _const("r")
                src_ok = path is not None and gv.term(path, oc) == ("param", gp[1]) and mt[0] == "const" and mt[1] == "str" and sorted(mt[2]) == ["b", "r"]
                sdetail = f"source is open(<{gp[1]}>, {gv.show(mt)})"
            elif wrap == "open" and isinstance(oc.func, ast.Attribute) and oc.func.attr == "open":
                # Path(path).open("rb")
                inner = gv.call_of(gv.term(oc.func.value, oc))
                mode = oc.args[0] if oc.args else next((k.value for k in oc.keywords if k.arg == "mode"), None)
                mt = gv.term(mode, oc) if mode is not None else _const("r")
                if inner is not None and (dotted(inner.func) or "").split(".")[-1] == "Path" and len(inner.args) == 1:
                    src_ok = gv.term(inner.args[0], inner) == ("param", gp[1]) and mt[0] == "const" and mt[1] == "str" and sorted(mt[2]) == ["b", "r"]
                    sdetail = f"source is Path(<{gp[1]}>).open({gv.show(mt)})"
            elif wrap == "BytesIO" and fn_name in ("io.BytesIO", "BytesIO") and fn_name.split(".")[0] not in gv.locals:
                arg0 = oc.args[0] if oc.args else next((k.value for k in oc.keywords if k.arg == "initial_bytes"), None)
                src_ok = arg0 is not None and gv.term(arg0, oc) == ("param", gp[1])
                sdetail = f"source is BytesIO({gv.show(gv.term(arg0, oc)) if arg0 is not None else ''})"
        elif ft[0] in ("param", "const", "global"):
            src_ok = False
        rets = [r for r in gv.cfg.return_stmts()]
        rts = [gv.term(r.value, r) if r.value is not None else _const(None) for r in rets]
        if rets and all(t == ("call", id(c)) for t in rts) and not gv.cfg.falls_off_end():
            ret_ok = True
        elif any(t[0] in ("const", "param", "global") for t in rts) or gv.cfg.falls_off_end():
            ret_ok = False
        else:
            ret_ok = None
        detail = f"key options forwarded={kw_ok}; {sdetail} (binary file over <{gp[1]}> required)={src_ok}; result returned unchanged={ret_ok}"
        if kw_ok and src_ok is not False and ret_ok is not False and (src_ok is None or ret_ok is None):
            ctx.undecided("R7", "AGREE", g, "delegation to from_file", detail, c)
        else:
            ctx.ob("R7", "AGREE", g, "delegation to from_file", bool(kw_ok and src_ok and ret_ok), detail, c)


def _mentions_cand(v, t, cand_t) -> bool:
    """does the (constructed) value t derive from the candidate?  (looks into the constructor arguments)"""
    if _mentions(t, cand_t):
        return True
    for a in _alts(t):
        c = v.call_of(a)
        if c is not None:
            for x in list(c.args) + [k.value for k in c.keywords]:
                if not isinstance(x, ast.Starred) and _mentions(v.term(x, c), cand_t):
                    return True
    return False


def _attr_stores(ctx, f, v, ret, cons):
    """Attribute stores on the object constructed by `cons` that reach the return `ret`: {attr: [value terms]} and
    whether the object is handed to other code (as an argument / via setattr) on the way."""
    cfg, fv = v.cfg, v.fv
    want = ("call", id(cons))
    cn, rn = v.stmt_node(cons), cfg.node(ret)
    meta, escaped = {}, False
    if cn is None:
        return meta, True
    for st in statements(f.node):
        if not cfg.has(st):
            continue
        sn = cfg.node(st)
        if sn != cn and not (cfg.reaches(cn, sn) and cfg.reaches(sn, rn)):
            continue
        if isinstance(st, ast.Assign):
            pairs = []
            for t in st.targets:
                if isinstance(t, ast.Attribute):
                    pairs.append((t, st.value))
                elif isinstance(t, (ast.Tuple, ast.List)) and any(isinstance(x, ast.Attribute) for x in t.elts):
                    if isinstance(st.value, (ast.Tuple, ast.List)) and len(st.value.elts) == len(t.elts):
                        pairs.extend((x, y) for x, y in zip(t.elts, st.value.elts) if isinstance(x, ast.Attribute))
                    else:
                        pairs.extend((x, None) for x in t.elts if isinstance(x, ast.Attribute))
            for t, val in pairs:
                if v.term(t.value, st) == want:
                    meta.setdefault(t.attr, []).append(v.term(val, st) if val is not None else ("opaque", "unpacked"))
        for c in (n for n in ast.walk(st) if isinstance(n, ast.Call)) if not isinstance(st, (ast.For, ast.While, ast.If, ast.Try, ast.With)) else ():
            if c is cons:
                continue
            for x in list(c.args) + [k.value for k in c.keywords]:
                if not isinstance(x, ast.Starred) and v.term(x, st) == want:
                    escaped = True
    return meta, escaped


# ============================================================================ R10
_ALLOCATORS = {"sorted", "list", "dict", "set", "bytearray", "copy.copy", "copy.deepcopy", "collections.Counter", "collections.OrderedDict",
               "collections.defaultdict", "collections.deque"}
_CONTAINER_READS = {"get", "setdefault", "pop", "__getitem__"}
_PLAIN_DECORATORS = {"staticmethod", "classmethod"}


def _memoising(dec) -> bool:
    """a decorator that makes every call with the same arguments return one stored result object"""
    d = dotted(dec.func if isinstance(dec, ast.Call) else dec) or ""
    last = d.split(".")[-1].lower()
    return "cache" in last or "memo" in last


def _combine(rs):
    """verdicts of the alternatives of a value: one shared alternative is a located shared object"""
    rs = list(rs)
    for want in ("shared", "unknown"):
        for r in rs:
            if r[0] == want:
                return r
    return rs[0] if rs else ("unknown", "no value")


def _freshness(ctx, f, e, at, depth=0):
    """Where does the object denoted by expression e (in function f, at statement `at`) come from?
    ("fresh", why): allocated during this call on every path (literal, comprehension, sorted()/list()/copy, operator
    result, or the result of a package function all of whose returns are fresh); ("shared", why): an object that
    outlives the call - a module-level object or an element of one, the stored result of a memoised function, a mutable
    default argument, the caller's own object; ("unknown", why) otherwise.  Syntax tree, resolved callees, reaching
    definitions; nothing is evaluated."""
    e = strip_cast(e)
    fn = f.node
    if depth > 6:
        return "unknown", "call chain too deep"
    local = set(params(fn)) | {n.id for n in body_walk(fn) if isinstance(n, ast.Name) and isinstance(n.ctx, ast.Store)}
    mod = f.module
    if isinstance(e, ast.NamedExpr):
        return _freshness(ctx, f, e.value, at, depth)
    if isinstance(e, (ast.List, ast.ListComp, ast.Dict, ast.DictComp, ast.Set, ast.SetComp, ast.BinOp, ast.Constant, ast.JoinedStr, ast.Tuple)):
        return "fresh", "built by this call: " + src(e)[:50]
    if isinstance(e, ast.IfExp):
        return _combine([_freshness(ctx, f, x, at, depth) for x in (e.body, e.orelse)])
    if isinstance(e, ast.BoolOp):
        return _combine([_freshness(ctx, f, x, at, depth) for x in e.values])
    if isinstance(e, ast.Subscript):
        if isinstance(e.slice, ast.Slice):
            return "fresh", "a slice copy"
        r = _freshness(ctx, f, e.value, at, depth)
        return ("shared", "element of " + r[1]) if r[0] == "shared" else ("unknown", "element of a container: " + src(e)[:50])
    if isinstance(e, ast.Name):
        if e.id not in local:
            if e.id in mod.consts:
                return "shared", f"module-level object {e.id}"
            return "unknown", f"global {e.id}"
        rd = reaching_defs(ctx, f, e.id, at)
        if not rd:
            return "unknown", f"no definition of {e.id} reaches the use"
        out = []
        for st, val in rd:
            if st is fn:
                dflt = param_defaults(fn).get(e.id)
                if dflt is not None and not isinstance(dflt, (ast.Constant, ast.Tuple)):
                    out.append(("shared", f"default-argument object of parameter {e.id} (created once, kept across calls)"))
                elif depth == 0:
                    out.append(("shared", f"the caller's own object (parameter {e.id})"))
                else:
                    out.append(("unknown", f"parameter {e.id} of {f.fq}"))
            elif val is None:
                out.append(("unknown", f"{e.id} is bound by unpacking / a loop / a with statement"))
            else:
                out.append(_freshness(ctx, f, val, st, depth))
        return _combine(out)
    if isinstance(e, ast.Attribute):
        d = dotted(e)
        if d is not None and d.split(".")[0] not in local:
            return "shared", f"module/class-level object {d}"
        return "unknown", "attribute " + src(e)[:50]
    if isinstance(e, ast.Call):
        d = dotted(e.func)
        if d in _ALLOCATORS and d.split(".")[0] not in local:
            return "fresh", f"{d}(...) allocates a new object"
        if isinstance(e.func, ast.Attribute) and e.func.attr == "copy" and not e.args:
            return "fresh", "a copy"
        if isinstance(e.func, ast.Attribute) and e.func.attr in _CONTAINER_READS:
            r = _freshness(ctx, f, e.func.value, at, depth)
            return ("shared", "element of " + r[1]) if r[0] == "shared" else ("unknown", "element of a container: " + src(e)[:50])
        cal = ctx.rs.resolve_call(f, e)
        if cal.kind == "func" and cal.func is not None:
            g = cal.func
            decs = list(getattr(g.node, "decorator_list", []))
            if any(_memoising(x) for x in decs):
                return "shared", f"result of {g.fq}(), which is memoised ({', '.join(src(x) for x in decs)}): every call with equal arguments returns the one stored object"
            if any((dotted(x) or "") not in _PLAIN_DECORATORS for x in decs):
                return "unknown", f"{g.fq} is wrapped by a decorator"
            if any(isinstance(n, (ast.Yield, ast.YieldFrom)) for n in body_walk(g.node)):
                return "unknown", f"{g.fq} is a generator"
            rets = [r for r in statements(g.node) if isinstance(r, ast.Return) and r.value is not None]
            if not rets:
                return "unknown", f"{g.fq} returns nothing"
            r = _combine([_freshness(ctx, g, x.value, x, depth + 1) for x in rets])
            return r[0], f"{g.fq}() returns " + r[1]
        return "unknown", "result of " + src(e.func)[:50] + "(...)"
    return "unknown", src(e)[:50]


def r10(ctx):
    """Key priority is a function of the keys asked for and of the payload at hand: a key list that is changed in place
    (re-ordered by byte frequency, extended, trimmed) must be an object private to the call - allocated by it or by a
    callee that returns a new object every time.  If the object is shared (module-level table, the caller's list, the
    stored result of a memoised function, a default argument), the order left by the previous payload is what the next
    extraction starts from."""
    f = ctx.repo.func(FQ_BLOCKS)
    if len(params(f.node)) < 2:
        ctx.undecided("R10", "ALIAS", f, "key list changed in place is private to the call", "iter_beacon_config_blocks no longer takes (file, keys, ..)", f.node)
        return
    S = _Sites(ctx, f)
    v = S.v
    # the key lists, by role: what the key loops iterate, what the retry hands on, what make_byte_list gets
    roles = []
    for s in S.sites:
        if s["outer"] is not None:
            roles.append((s["outer"].iter, s["outer"]))
    for call in S.retries:
        a = v.args(call)
        if a and len(a) >= 2 and list(a.values())[1] is not None:
            roles.append((list(a.values())[1], call))
    for call in v.calls(FQ_BYTELIST):
        a = v.args(call) or {}
        ex = next(iter(a.values()), None)
        if ex is not None:
            roles.append((ex, call))
    key_alts = []
    for e, at in roles:
        for t in _alts(v.term(e, at)):
            parts = list(t[1:]) if t[0] in ("or", "and") else [t]
            key_alts.extend(x for x in parts if x not in key_alts)
    if not roles:
        ctx.undecided("R10", "ALIAS", f, "key list changed in place is private to the call", "no key list located (no key loop, no retry)", f.node)
        return
    # in-place modifications whose receiver is one of those objects
    sites = []
    for n in body_walk(f.node):
        recv = None
        if isinstance(n, ast.Call) and isinstance(n.func, ast.Attribute) and n.func.attr in _MUTATORS:
            recv = n.func.value
        elif isinstance(n, ast.Subscript) and isinstance(n.ctx, (ast.Store, ast.Del)):
            recv = n.value
        elif isinstance(n, ast.AugAssign) and isinstance(n.target, ast.Name):
            recv = n.target
        if recv is None or not isinstance(recv, ast.Name):
            continue
        st = v.fv.stmt_of(n)
        if st is None or not v.cfg.has(st):
            continue
        rt = v.term(ast.Name(id=recv.id, ctx=ast.Load()), st)
        if any(a in key_alts for a in _alts(rt)) or any(x in key_alts for a in _alts(rt) if a[0] in ("or", "and") for x in a[1:]):
            sites.append((n, st, recv))
    text = "key list changed in place is private to the call"
    if not sites:
        ctx.ob("R10", "ALIAS", f, text, True, "no key list is modified in place in the block iterator", f.node, nontrivial=False)
        return
    for n, st, recv in sites:
        verdict, why = _freshness(ctx, f, ast.Name(id=recv.id, ctx=ast.Load()), st)
        what = f"`{src(n)[:60]}` changes a key list in place; that list is "
        if verdict == "unknown":
            ctx.undecided("R10", "ALIAS", f, text, what + "of an origin this rule does not follow: " + why, n)
        else:
            ctx.ob("R10", "ALIAS", f, text, verdict == "fresh", what + (why if verdict == "fresh" else "NOT private to this extraction: " + why +
                   " - the order left behind by an earlier payload decides the key priority of the next one"), n)


# ============================================================================ R11
# Sets of possible chunk lengths: sorted disjoint closed integer intervals [(lo, hi), ...], hi may be INF.
INF = float("inf")


def _iv_norm(xs):
    out = []
    for lo, hi in sorted(x for x in xs if x[0] <= x[1]):
        if out and lo <= out[-1][1] + 1:
            out[-1] = (out[-1][0], max(out[-1][1], hi))
        else:
            out.append((lo, hi))
    return out


def _iv_cap(a, b):
    return _iv_norm([(max(l1, l2), min(h1, h2)) for l1, h1 in a for l2, h2 in b])


def _iv_cup(a, b):
    return _iv_norm(list(a) + list(b))


def _iv_minus(dom, a):
    """dom without a (a is normalised)"""
    out = list(dom)
    for lo, hi in a:
        nxt = []
        for l, h in out:
            nxt.append((l, min(h, lo - 1)))
            nxt.append((max(l, hi + 1), h))
        out = [x for x in nxt if x[0] <= x[1]]
    return _iv_norm(out)


def _iv_show(a) -> str:
    return ", ".join(f"{lo}" if lo == hi else (f"{lo}.." if hi == INF else f"{lo}..{hi}") for lo, hi in a) or "none"


_FLIP = {ast.Lt: ast.Gt, ast.LtE: ast.GtE, ast.Gt: ast.Lt, ast.GtE: ast.LtE, ast.Eq: ast.Eq, ast.NotEq: ast.NotEq}


def _len_test(v, test, at, names, dom):
    """Length-domain reading of a branch test for a chunk (a read result held in one of the locals `names`) whose length
    lies in `dom`: -> (T, F), the lengths for which the test may be true / may be false, or None when the test says
    something about the chunk that is not a statement about its length.  Vocabulary: truthiness of the chunk / of
    `len(chunk)`, `len(chunk) <op> <constant int>` (either side), comparison with the empty bytes constant, `is None`,
    and not/and/or of those; sub-tests that do not mention the chunk are free (may be true, may be false).  Transfer
    rules of the interval domain only: for a fixed length an `and` holds iff all its operands hold (intersection), an
    `or` iff one does (union), `not` swaps."""
    def mentions(e):
        return any(isinstance(x, ast.Name) and x.id in names for x in ast.walk(e))

    def is_chunk(e):
        e = strip_cast(e)
        return isinstance(e, ast.Name) and e.id in names

    def is_len(e):
        e = strip_cast(e)
        return isinstance(e, ast.Call) and dotted(e.func) == "len" and "len" not in v.locals and len(e.args) == 1 and not e.keywords and is_chunk(e.args[0])

    def const(e):
        t = v.term(e, at)
        if t[0] == "global":
            t = v._global_const(t[1]) or t
        return t if t[0] == "const" else None

    def ev(e):
        e = strip_cast(e)
        if not mentions(e):
            return dom, dom
        if is_chunk(e) or is_len(e):
            return dom, _iv_cap(dom, [(0, 0)])
        if isinstance(e, ast.Call) and dotted(e.func) == "bool" and "bool" not in v.locals and len(e.args) == 1 and not e.keywords:
            return ev(e.args[0])
        if isinstance(e, ast.UnaryOp) and isinstance(e.op, ast.Not):
            r = ev(e.operand)
            return None if r is None else (r[1], r[0])
        if isinstance(e, ast.BoolOp):
            rs = [ev(x) for x in e.values]
            if any(r is None for r in rs):
                return None
            t, f = rs[0]
            for t2, f2 in rs[1:]:
                if isinstance(e.op, ast.And):
                    t, f = _iv_cap(t, t2), _iv_cup(f, f2)
                else:
                    t, f = _iv_cup(t, t2), _iv_cap(f, f2)
            return t, f
        if isinstance(e, ast.Compare) and len(e.ops) == 1:
            l, op, r = e.left, type(e.ops[0]), e.comparators[0]
            if not is_len(l) and not is_chunk(l):
                l, r, op = r, l, _FLIP.get(op, op)
            if mentions(r):
                return None
            c = const(r)
            sat = None
            if is_len(l) and c is not None and c[1] == "int":
                k = c[2]
                sat = {ast.Lt: [(-INF, k - 1)], ast.LtE: [(-INF, k)], ast.Gt: [(k + 1, INF)], ast.GtE: [(k, INF)], ast.Eq: [(k, k)],
                       ast.NotEq: [(-INF, k - 1), (k + 1, INF)]}.get(op)
            elif is_chunk(l) and c is not None and c[1] in ("bytes", "NoneType") and not c[2]:
                # equal to the empty bytes constant iff the length is 0; a read result is never None
                empty = [(0, 0)] if c[1] == "bytes" else []
                sat = {ast.Eq: empty, ast.Is: empty if c[1] == "NoneType" else None, ast.NotEq: _iv_minus([(-INF, INF)], empty),
                       ast.IsNot: _iv_minus([(-INF, INF)], empty) if c[1] == "NoneType" else None}.get(op)
            if sat is None:
                return None
            t = _iv_cap(dom, sat)
            return t, _iv_minus(dom, t)
        return None

    return ev(test)


def r11(ctx):
    """The XorEncoded view hands out every byte of the payload: whatever the decode loop of XorEncodedFile.read() reads
    from the underlying file and is not empty goes through the decode step.  A block that reaches the end of the payload
    is only extracted completely if the last word - which is shorter than the others unless the payload length happens
    to be a multiple of the word size - is decoded as well.  The paths of read() are followed from each read of the
    underlying file under the named assumption "the chunk just read is not empty"; branch tests on the chunk are
    decided in the length domain (`read(k)` returns between 0 and k bytes, every length in between occurs at the end
    of the data)."""
    f = ctx.repo.func(FQ_XORREAD)
    v = _Val(ctx, f)
    cfg, fv = v.cfg, v.fv
    text = "every non-empty chunk read from the underlying file is decoded"
    if not v.params:
        ctx.undecided("R11", "DOM", f, text, "read() is not a method", f.node)
        return
    self_t = ("param", v.params[0])
    reads = []
    for c in fn_calls(f.node):
        if isinstance(c.func, ast.Attribute) and c.func.attr == "read" and fv.enclosing(c, (ast.Lambda, ast.FunctionDef, ast.AsyncFunctionDef)) is None:
            rt = v.term(c.func.value, c)
            if rt[0] == "attr" and rt[1] == self_t:
                reads.append(c)
    if not reads:
        ctx.undecided("R11", "DOM", f, text, "no read() on a file object held by the view located in XorEncodedFile.read()", f.node)
        return
    handlers = [nd for nd, s in cfg.stmt.items() if isinstance(s, ast.ExceptHandler)]
    for R in reads:
        rst = fv.stmt_of(R)
        if not (isinstance(rst, (ast.Assign, ast.AnnAssign)) and strip_cast(rst.value) is R and cfg.has(rst)):
            ctx.undecided("R11", "DOM", f, text, f"the result of `{src(R)}` is not bound to a local: its way through the loop is not followed", R)
            continue
        tgts = rst.targets if isinstance(rst, ast.Assign) else [rst.target]
        if not all(isinstance(t, ast.Name) for t in tgts):
            ctx.undecided("R11", "DOM", f, text, f"the result of `{src(R)}` is not bound to a plain local", R)
            continue
        names = {t.id for t in tgts}
        # plain copies of the chunk (`word = chunk`) are the chunk
        copies = []
        grown = True
        while grown:
            grown = False
            for st in statements(f.node):
                if (isinstance(st, ast.Assign) and len(st.targets) == 1 and isinstance(st.targets[0], ast.Name) and st.targets[0].id not in names
                        and isinstance(strip_cast(st.value), ast.Name) and strip_cast(st.value).id in names
                        and all(isinstance(val, ast.AST) and isinstance(strip_cast(val), ast.Name) and strip_cast(val).id in names
                                for _s, val in assignments_to(f.node, st.targets[0].id))):
                    names.add(st.targets[0].id)
                    grown = True
        for st in statements(f.node):
            if isinstance(st, ast.Assign) and len(st.targets) == 1 and isinstance(st.targets[0], ast.Name) and st.targets[0].id in names \
                    and isinstance(strip_cast(st.value), ast.Name) and strip_cast(st.value).id in names:
                copies.append(st)
        size = v.term(R.args[0], R) if R.args and not R.keywords else ("opaque", "?")
        if size[0] == "global":
            size = v._global_const(size[1]) or size
        k = size[2] if size[0] == "const" and size[1] == "int" and size[2] >= 1 else INF
        dom = [(1, k)]
        Rs = cfg.node(rst)
        infeasible, unknown_tests, decode, uses, targets, both = [], [], [], [], [EXIT, Rs], []
        for nd, st in cfg.stmt.items():
            if isinstance(st, (ast.If, ast.While)):
                if not any(isinstance(x, ast.Name) and x.id in names for x in ast.walk(st.test)):
                    continue
                r = _len_test(v, st.test, st, names, dom)
                if r is None:
                    unknown_tests.append(nd)
                    continue
                if not r[0]:
                    infeasible.append(cfg.edge_node(st, "true"))
                if not r[1]:
                    infeasible.append(cfg.edge_node(st, "false"))
                if r[0] and r[1] and r[0] != dom:
                    both.append(f"`{src(st.test)}` holds for chunk lengths {_iv_show(r[0])}")
                continue
            if nd == Rs or any(st is c for c in copies):
                continue
            if isinstance(st, (ast.For, ast.AsyncFor)):
                own = [st.iter, st.target]
            elif isinstance(st, (ast.With, ast.AsyncWith)):
                own = [x for it in st.items for x in (it.context_expr, it.optional_vars) if x is not None]
            elif isinstance(st, (ast.Try, ast.ExceptHandler, ast.FunctionDef, ast.AsyncFunctionDef, ast.ClassDef)) or st.__class__.__name__ == "TryStar":
                own = []
            else:
                own = [st]
            loads = [x for e in own for x in ast.walk(e) if isinstance(x, ast.Name) and x.id in names and isinstance(x.ctx, ast.Load)]
            stores = [x for e in own for x in ast.walk(e) if isinstance(x, ast.Name) and x.id in names and isinstance(x.ctx, ast.Store)]
            if loads:
                uses.append(nd)
                for c in (x for e in own for x in ast.walk(e) if isinstance(x, ast.Call)):
                    if v.callee_fq(c) == FQ_XOR:
                        d = (v.args(c) or {}).get("data")
                        if d is not None and any(isinstance(x, ast.Name) and x.id in names for x in ast.walk(d)):
                            decode.append(nd)
            elif stores:
                targets.append(nd)  # the chunk is overwritten (next read, reset) before anything looked at it

        def escapes(avoid):
            av = list(avoid) + infeasible + handlers
            return next((t for t in targets if cfg.reaches(Rs, t, avoiding=av)), None)

        lens = f"a chunk of {_iv_show(dom)} bytes"
        if decode and escapes(decode) is None:
            ctx.ob("R11", "DOM", f, text, True, f"after `{src(R)}` every path on which the chunk is not empty reaches the decode step (xor with the rolling key) "
                   "before the function is left, the next chunk is read or the chunk is overwritten", R)
            continue
        t = escapes(decode + uses + unknown_tests)
        if t is not None:
            path = " -> ".join(cfg.witness_path(Rs, t, avoiding=decode + uses + unknown_tests + infeasible + handlers)[-6:])
            ctx.ob("R11", "DOM", f, text, False, f"{lens} read by `{src(R)}` can be dropped: it is consumed from the underlying file but neither decoded nor "
                   f"looked at again ({path})" + ("; " + "; ".join(both) if both else "") + " - the view loses these bytes (the last, shorter word of a "
                   "payload whose length is not a multiple of the word size; a configuration block that ends there is cut short)", R)
        elif not decode:
            ctx.undecided("R11", "DOM", f, text, f"no decode step (utils.xor applied to the chunk) located for `{src(R)}`", R)
        else:
            ctx.undecided("R11", "DOM", f, text, f"after `{src(R)}` the decode step can be bypassed, but only through statements that use the chunk in a way "
                          "this rule does not follow (another decode path, a give-back) or through a test on the chunk that is not a statement about its "
                          "length (content test, length arithmetic other than a comparison with a constant)", R)


# ============================================================================ R12
_FILE_PROTOCOL = {"read", "seek", "tell", "readinto"}
_CONTENT_READS = {"read", "getvalue", "getbuffer", "peek", "readall", "readline"}
_STORE_READS = {"get", "setdefault", "pop", "__getitem__", "__contains__"}
_STORE_WRITES = _MUTATORS | {"add", "discard", "appendleft", "extendleft", "move_to_end"}
_ENTRY_POINTS = (FQ_FROM_FILE, "beacon.BeaconConfig.from_path", "beacon.BeaconConfig.from_bytes")


def _cls_fq(f):
    return f"{f.module.name}.{f.cls}" if f.cls else None


def _extraction_scope(ctx):
    """Package functions an extraction may run: call-graph descendants of the three entry points, plus every method of
    a class that is constructed on the way (file views are driven through the io protocol, which the call graph does not
    resolve).  The entry points' own class contributes its constructor only (its other methods run after extraction)."""
    g = ctx.rs.callgraph()
    roots = [fq for fq in _ENTRY_POINTS if ctx.repo.has_func(fq)]
    own = {_cls_fq(ctx.repo.func(fq)) for fq in roots}
    seen, work = set(roots), list(roots)
    while work:
        fq = work.pop()
        nxt = set(g.successors(fq)) if fq in g else set()
        if ctx.repo.has_func(fq):
            f = ctx.repo.func(fq)
            c = _cls_fq(f)
            if c is not None and c not in own and f.qualname.endswith(".__init__"):
                nxt |= {m.fq for m in ctx.repo.methods(c)}
        for x in nxt - seen:
            seen.add(x)
            work.append(x)
    return [ctx.repo.func(fq) for fq in sorted(seen) if ctx.repo.has_func(fq)]


def _first_param(f):
    """the receiver parameter (self / cls) of a method, else None"""
    if f.cls is None:
        return None
    decs = {dotted(d) for d in getattr(f.node, "decorator_list", [])}
    if "staticmethod" in decs:
        return None
    ps = params(f.node)
    return ps[0] if ps else None


def _file_objects(ctx, scope):
    """(function fq, parameter) pairs and (class fq, attribute) pairs that denote a file object, by role: the io protocol
    (read/seek/tell) is called on it, or it is handed to such a parameter of a resolved package callee / stored into
    such an attribute by the constructor (fixpoint over the call sites; syntax tree + resolved callees)."""
    fparams, fattrs = set(), set()
    for f in scope:
        recv = _first_param(f)
        for c in fn_calls(f.node):
            if not (isinstance(c.func, ast.Attribute) and c.func.attr in _FILE_PROTOCOL):
                continue
            r = c.func.value
            if isinstance(r, ast.Name) and r.id in params(f.node) and r.id != recv:
                fparams.add((f.fq, r.id))
            elif isinstance(r, ast.Attribute) and isinstance(r.value, ast.Name) and recv is not None and r.value.id == recv and f.cls:
                fattrs.add((_cls_fq(f), r.attr))
    changed = True
    while changed:
        changed = False
        for f in scope:
            recv = _first_param(f)
            ps = set(params(f.node)) - {recv}
            # constructor / method stores a parameter into a file attribute
            for st in statements(f.node):
                if isinstance(st, (ast.Assign, ast.AnnAssign)) and st.value is not None:
                    tgts = st.targets if isinstance(st, ast.Assign) else [st.target]
                    v = strip_cast(st.value)
                    for t in tgts:
                        if (isinstance(t, ast.Attribute) and isinstance(t.value, ast.Name) and t.value.id == recv and f.cls
                                and (_cls_fq(f), t.attr) in fattrs and isinstance(v, ast.Name) and v.id in ps and (f.fq, v.id) not in fparams):
                            fparams.add((f.fq, v.id))
                            changed = True
            for c in fn_calls(f.node):
                cal = ctx.rs.resolve_call(f, c)
                h, skip = None, False
                if cal.kind == "func" and cal.func is not None:
                    h = cal.func
                    skip = _first_param(h) is not None and isinstance(c.func, ast.Attribute)
                elif cal.kind == "class":
                    h, skip = ctx.rs.class_init(cal.fq), True
                if h is None:
                    continue
                try:
                    b = bind_args(c, h.node, skip_self=skip)
                except Exception:
                    continue
                for q, a in b.items():
                    if a is None or (h.fq, q) not in fparams:
                        continue
                    a = strip_cast(a)
                    if isinstance(a, ast.Name) and a.id in ps and (f.fq, a.id) not in fparams:
                        fparams.add((f.fq, a.id))
                        changed = True
    return fparams, fattrs


def _store_root(e):
    """the object a lookup / store expression digs into: X for X[k], X[k][j], X.get(k), X.setdefault(k, {})[j] ..."""
    while True:
        if isinstance(e, ast.Subscript):
            e = e.value
        elif isinstance(e, ast.Call) and isinstance(e.func, ast.Attribute) and e.func.attr in (_STORE_READS | _STORE_WRITES):
            e = e.func.value
        else:
            return e


def _long_lived(ctx, f, e):
    """name of the module-level / class-level object expression e denotes in function f, or None"""
    fn = f.node
    if isinstance(e, ast.Name):
        local = set(params(fn)) | {n.id for n in body_walk(fn) if isinstance(n, ast.Name) and isinstance(n.ctx, ast.Store)}
        declared = {x for n in body_walk(fn) if isinstance(n, ast.Global) for x in n.names}
        if (e.id not in local or e.id in declared) and e.id in f.module.consts:
            return f"{f.module.name}.{e.id}"
        return None
    if isinstance(e, ast.Attribute) and isinstance(e.value, ast.Name):
        base, c = e.value.id, None
        if base == _first_param(f) and f.cls:
            c = _cls_fq(f)
        elif base in f.module.classes and base not in params(fn):
            c = f"{f.module.name}.{base}"
        if c is not None:
            try:
                attrs = ctx.repo.class_attrs(c)
            except Exception:
                return None
            if e.attr in attrs:
                # an instance attribute of the same name (assigned through the receiver) shadows the class-level object
                for m in ctx.repo.methods(c):
                    r = _first_param(m)
                    for n in body_walk(m.node):
                        if (isinstance(n, ast.Attribute) and isinstance(n.ctx, ast.Store) and n.attr == e.attr
                                and isinstance(n.value, ast.Name) and n.value.id == r and "classmethod" not in {dotted(d) for d in m.node.decorator_list}):
                            return None
                return f"{c}.{e.attr}"
    return None


def _store_accesses(ctx, f):
    """(kind, store name, key expression | None, node) for every access of function f to a module-/class-level object:
    kind "write" (item store / delete, mutating method, rebinding of a declared global) or "read" (item load, get /
    setdefault / pop, membership test, plain load of a rebound global)."""
    out = []
    fn = f.node
    declared = {x for n in body_walk(fn) if isinstance(n, ast.Global) for x in n.names}
    for n in body_walk(fn):
        if isinstance(n, ast.Subscript):
            name = _long_lived(ctx, f, _store_root(n))
            if name:
                out.append(("read" if isinstance(n.ctx, ast.Load) else "write", name, n.slice, n))
        elif isinstance(n, ast.Call) and isinstance(n.func, ast.Attribute) and n.func.attr in (_STORE_READS | _STORE_WRITES):
            name = _long_lived(ctx, f, _store_root(n))
            if name:
                key = n.args[0] if n.args else None
                if n.func.attr in _STORE_WRITES:
                    out.append(("write", name, key, n))
                if n.func.attr in _STORE_READS:
                    out.append(("read", name, key, n))
        elif isinstance(n, ast.Compare) and any(isinstance(o, (ast.In, ast.NotIn)) for o in n.ops) and len(n.ops) == 1:
            name = _long_lived(ctx, f, _store_root(n.comparators[0]))
            if name:
                out.append(("read", name, n.left, n))
        elif isinstance(n, ast.Name) and n.id in declared and n.id in f.module.consts:
            out.append(("write" if isinstance(n.ctx, (ast.Store, ast.Del)) else "load", f"{f.module.name}.{n.id}", None, n))
        elif isinstance(n, ast.AugAssign):
            name = _long_lived(ctx, f, _store_root(n.target))
            if name and not isinstance(n.target, ast.Subscript):
                out.append(("write", name, None, n))
    return out


def _file_identity_in(ctx, f, key, fparams, fattrs):
    """How does the key expression depend on a file object?  "identity": it mentions the object itself (or id() / an
    attribute / a non-reading method of it); "content": only through a call that reads its bytes; None: not at all."""
    from csverif.q import inline

    fn = f.node
    recv = _first_param(f)
    try:
        key = inline(fn, key)
    except Exception:
        pass
    content_recv, hits = set(), []
    for n in ast.walk(key):
        if isinstance(n, ast.Call) and isinstance(n.func, ast.Attribute) and n.func.attr in _CONTENT_READS:
            content_recv.add(id(n.func.value))
    for n in ast.walk(key):
        is_file = False
        if isinstance(n, ast.Name) and isinstance(n.ctx, ast.Load) and (f.fq, n.id) in fparams:
            is_file = True
        elif isinstance(n, ast.Name) and isinstance(n.ctx, ast.Load) and n.id == recv and f.cls and "read" in {m.qualname.rsplit(".", 1)[-1] for m in ctx.repo.methods(_cls_fq(f))} \
                and "classmethod" not in {dotted(d) for d in fn.decorator_list}:
            is_file = True  # the instance of a file view class
        elif isinstance(n, ast.Attribute) and isinstance(n.value, ast.Name) and n.value.id == recv and f.cls and (_cls_fq(f), n.attr) in fattrs:
            is_file = True
        if is_file:
            hits.append("content" if id(n) in content_recv else "identity")
    if "identity" in hits:
        return "identity"
    return "content" if hits else None


def r12(ctx):
    """What an extraction returns is a function of the payload at hand (and of the key options): the functions an
    extraction runs must not take an answer out of a store that outlives the call and is filled at run time, looked up
    by the file object - the same file object (a recycled BytesIO, a scratch file opened w+b) holds another payload the
    next time, and the answer computed for the previous content (found / not found, container layout, nonce offset)
    would be returned without looking at the bytes.  Located: (a) item / get / membership lookups in a module-level or
    class-level object that some function of the package writes to; (b) a memoising decorator on a function that takes a
    file object; (c) an attribute that package code plants on the caller's file object and reads back."""
    text = "answer is computed from the payload at hand, not looked up by file object in a store that outlives the call"
    scope = _extraction_scope(ctx)
    if not scope or not ctx.repo.has_func(FQ_FROM_FILE):
        ctx.undecided("R12", "ALIAS", "beacon.py", text, "extraction entry points not located")
        return
    fparams, fattrs = _file_objects(ctx, scope)
    if not any(fq == FQ_BLOCKS or fq == FQ_FROM_FILE for fq, _ in fparams):
        ctx.undecided("R12", "ALIAS", ctx.repo.func(FQ_FROM_FILE), text, "no file-object parameter located on the extraction path (the io protocol is not "
                      "called on any parameter reachable from the entry points)")
        return
    # who writes which long-lived object at run time (whole package: a store filled elsewhere is still a store)
    written = {}
    for g in ctx.repo.all_funcs():
        for kind, name, key, n in _store_accesses(ctx, g):
            if kind == "write":
                written.setdefault(name, []).append(g.fq)
    n_sites = 0
    for f in scope:
        # (a) lookups in run-time-written stores
        seen = set()
        for kind, name, key, n in _store_accesses(ctx, f):
            if kind not in ("read", "load") or name not in written:
                continue
            short = name.split(".", 1)[1]
            if kind == "load" or key is None:
                if (name, "load") in seen:
                    continue
                seen.add((name, "load"))
                n_sites += 1
                ctx.undecided("R12", "ALIAS", f, f"{text}: {short}", f"{short} is rebound / changed at run time (by {', '.join(sorted(set(written[name])))}) and read on "
                              "the extraction path; whether what is stored there depends on an earlier payload is not followed", n)
                continue
            dep = _file_identity_in(ctx, f, key, fparams, fattrs)
            tag = (name, dep)
            if tag in seen:
                continue
            seen.add(tag)
            n_sites += 1
            by = ", ".join(sorted(set(written[name])))
            if dep == "identity":
                ctx.ob("R12", "ALIAS", f, f"{text}: {short}", False,
                       f"`{src(n)[:70]}` looks an answer up in {short}, an object that outlives the call and is filled at run time (by {by}), under the "
                       "file object itself: the key identifies the object, not its bytes - when the same file object holds another payload "
                       "(recycled buffer, rewritten scratch file) the answer computed for the previous content is returned and the payload at hand is "
                       "not looked at (a block under a tried key is missed / a stale container layout is used)", n)
            else:
                ctx.undecided("R12", "ALIAS", f, f"{text}: {short}", f"`{src(n)[:70]}` consults {short}, which outlives the call and is filled at run time (by {by}); the key "
                              + ("is derived from bytes read from the file object" if dep == "content" else "does not mention a file object")
                              + " - whether the stored answer depends on an earlier payload is not followed", n)
        # (b) memoised function of a file object
        decs = list(getattr(f.node, "decorator_list", []))
        memo = [d for d in decs if _memoising(d)]
        if memo:
            fps = [p for p in params(f.node) if (f.fq, p) in fparams]
            if fps:
                n_sites += 1
                ctx.ob("R12", "ALIAS", f, f"{text}: memoised {f.qualname}", False,
                       f"{f.fq} runs during extraction, takes a file object (parameter {', '.join(fps)}) and is memoised ({', '.join(src(d) for d in memo)}): the "
                       "stored result is keyed by the identity of the file object, not by its bytes - a second payload in the same file object gets the "
                       "answer computed for the first", f.node)
    # (c) state planted on the caller's file object
    planted, consulted = {}, {}
    for f in scope:
        for n in body_walk(f.node):
            if isinstance(n, ast.Attribute) and isinstance(n.value, ast.Name) and (f.fq, n.value.id) in fparams:
                if isinstance(n.ctx, ast.Store):
                    planted.setdefault(n.attr, (f, n))
            if isinstance(n, ast.Call) and dotted(n.func) in ("setattr", "getattr", "hasattr") and len(n.args) >= 2 \
                    and isinstance(n.args[0], ast.Name) and (f.fq, n.args[0].id) in fparams and isinstance(n.args[1], ast.Constant):
                (planted if dotted(n.func) == "setattr" else consulted).setdefault(n.args[1].value, (f, n))
    for f in scope:
        for n in body_walk(f.node):
            if isinstance(n, ast.Attribute) and isinstance(n.ctx, ast.Load) and n.attr in planted and isinstance(n.value, ast.Name) and (f.fq, n.value.id) in fparams:
                par = FuncView.of(f.node).parent(n)
                if not (isinstance(par, ast.Call) and par.func is n):
                    consulted.setdefault(n.attr, (f, n))
    for a in sorted(set(planted) & set(consulted), key=str):
        f, n = consulted[a]
        n_sites += 1
        ctx.ob("R12", "ALIAS", f, f"{text}: attribute {a} of the file object", False,
               f"`{src(n)[:70]}` reads attribute {a} that {planted[a][0].fq} plants on the caller's file object: the note survives the call and is "
               "not invalidated when the content of the file object changes - the next payload in the same object gets the answer of the previous one", n)
    if n_sites == 0:
        ctx.ob("R12", "ALIAS", ctx.repo.func(FQ_FROM_FILE), text, True,
               f"none of the {len(scope)} functions an extraction runs consults a module-/class-level object that is written at run time, none that takes "
               "a file object is memoised, none reads back an attribute planted on the file object", nontrivial=False)


# ============================================================================ R13 / R14: the all-keys retry
_POSITION_NEUTRAL = {"tell", "seekable", "readable", "writable", "fileno", "isatty", "flush"}
_OPENERS = {"open", "io.open", "io.BytesIO", "BytesIO", "io.BufferedReader"}
_ORDER_ONLY = {"sorted", "list", "tuple", "reversed"}
_DROPPERS = {"remove", "pop", "clear", "popitem", "__delitem__"}


def _root_name(e):
    while isinstance(e, (ast.Attribute, ast.Subscript, ast.Starred)):
        e = e.value
    return e.id if isinstance(e, ast.Name) else None


def _flows(v):
    """Flow-insensitive def/use summary of the statements of a function: [(statement, names written, names read)] for
    assignments (the base of an item / attribute store counts as written), augmented assignments, loop targets
    (<- iterable), with-bindings and in-place method calls (receiver <- arguments).  Names inside lambdas and
    comprehensions count as read by the statement that contains them."""
    def loads(e):
        return {n.id for n in ast.walk(e) if isinstance(n, ast.Name) and isinstance(n.ctx, ast.Load)} & v.locals if e is not None else set()

    out = []
    for st in statements(v.fn):
        if isinstance(st, (ast.Assign, ast.AnnAssign, ast.AugAssign)):
            if getattr(st, "value", None) is None:
                continue
            tgts = st.targets if isinstance(st, ast.Assign) else [st.target]
            w = set()
            for t in tgts:
                for x in (t.elts if isinstance(t, (ast.Tuple, ast.List)) else [t]):
                    r = _root_name(x)
                    if r:
                        w.add(r)
            rd = loads(st.value) | (w if isinstance(st, ast.AugAssign) else set())
            out.append((st, w, rd))
        elif isinstance(st, (ast.For, ast.AsyncFor)):
            out.append((st, {n.id for n in ast.walk(st.target) if isinstance(n, ast.Name)}, loads(st.iter)))
        elif isinstance(st, (ast.With, ast.AsyncWith)):
            for it in st.items:
                if it.optional_vars is not None:
                    out.append((st, {n.id for n in ast.walk(it.optional_vars) if isinstance(n, ast.Name)}, loads(it.context_expr)))
        elif isinstance(st, ast.Expr) and isinstance(st.value, ast.Call) and isinstance(st.value.func, ast.Attribute):
            r = _root_name(st.value.func.value)
            if r and r in v.locals:
                out.append((st, {r}, loads(st.value)))
    return out


def _closure(flows, seed, backward):
    """names that flow into `seed` (backward) / that `seed` flows into (forward): transitive closure over `flows`"""
    rel = set(seed)
    grown = True
    while grown:
        grown = False
        for _st, w, rd in flows:
            src_, dst = (w, rd) if backward else (rd, w)
            if src_ & rel and not dst <= rel:
                rel |= dst
                grown = True
    return rel


def _reads_in(root, locals_):
    """`<receiver>.read` attribute nodes under root (called directly, or handed to partial()/iter()/a lambda)"""
    return [n for n in ast.walk(root) if isinstance(n, ast.Attribute) and n.attr == "read" and isinstance(n.ctx, ast.Load)]


def _is_rewind(v, c, want_alt):
    """is call c `<stream>.seek(0)` / `.seek(0, SEEK_SET)` on a receiver that may be the object `want_alt`?"""
    if not (isinstance(c.func, ast.Attribute) and c.func.attr == "seek"):
        return False
    pa = list(c.args)
    off = pa[0] if pa else next((k.value for k in c.keywords if k.arg in ("offset", "pos", "target", "cookie")), None)
    wh = pa[1] if len(pa) > 1 else next((k.value for k in c.keywords if k.arg == "whence"), None)
    if off is None or v.term(off, c) != _const(0):
        return False
    if wh is not None and v.term(wh, c) not in (_const(0), ("global", "io.SEEK_SET"), ("global", "os.SEEK_SET"), ("global", "SEEK_SET")):
        return False
    return want_alt in [_unwith(a) for a in _alts(v.term(c.func.value, c))]


def _unwith(t):
    while t[0] == "with":
        t = t[1]
    return t


def _returns_rewound(ctx, g) -> bool:
    """every return of package function g returns a local on which `.seek(0)` is the last thing done: a dominating
    `<local>.seek(0)` statement with no other use of the local between it and the return"""
    gv = _Val(ctx, g)
    cfg = gv.cfg
    rets = [r for r in cfg.return_stmts() if cfg.reachable(cfg.node(r))]
    if not rets or cfg.falls_off_end():
        return False
    for r in rets:
        x = strip_cast(r.value) if r.value is not None else None
        if not isinstance(x, ast.Name) or x.id in gv.params:
            return False
        rn = cfg.node(r)
        ok = False
        for st in statements(g.node):
            if not (isinstance(st, ast.Expr) and isinstance(st.value, ast.Call) and cfg.has(st)):
                continue
            c = st.value
            if not (isinstance(c.func, ast.Attribute) and c.func.attr == "seek" and isinstance(c.func.value, ast.Name) and c.func.value.id == x.id
                    and len(c.args) == 1 and not c.keywords and gv.term(c.args[0], c) == _const(0)):
                continue
            sn = cfg.node(st)
            if not cfg.dominates(sn, rn):
                continue
            between = [u for u in statements(g.node) if u is not st and u is not r and cfg.has(u)
                       and any(isinstance(n, ast.Name) and n.id == x.id for n in ast.walk(u) if not isinstance(u, (ast.For, ast.While, ast.If, ast.Try, ast.With)) or True)
                       and cfg.reaches(sn, cfg.node(u), avoiding=[rn]) and cfg.reaches(cfg.node(u), rn, avoiding=[sn])]
            if not between:
                ok = True
        if not ok:
            return False
    return True


def _retry_context(ctx):
    """(f, v, retries [(call, stmt, key expression)], flows) of the block iterator"""
    f = ctx.repo.func(FQ_BLOCKS)
    v = _Val(ctx, f)
    retries = []
    for call in v.calls(f.fq):
        st = v.fv.stmt_of(call)
        a = v.args(call)
        if a is None or st is None or not v.cfg.has(st) or len(a) < 2:
            continue
        retries.append((call, st, list(a.values())[1]))
    return f, v, retries, _flows(v)


def r13(ctx):
    """Key priority in all-keys mode is a function of the payload, not of how far earlier phases happened to read: the
    statistic that orders the retried keys is computed over the whole (XorDecoded) view - the stream its counting loop
    reads is positioned at its start on every path to that loop (absolute seek(0), a view that is constructed rewound,
    a newly opened stream), with nothing that moves it in between."""
    text = "statistic that orders the retried keys is computed from the start of the stream"
    f, v, retries, flows = _retry_context(ctx)
    cfg, fv = v.cfg, v.fv
    if not retries:
        ctx.undecided("R13", "CURSOR", f, text, "no recursive retry with the left-over keys located", f.node)
        return

    def loads(e):
        return {n.id for n in ast.walk(e) if isinstance(n, ast.Name) and isinstance(n.ctx, ast.Load)} & v.locals

    n_sites = 0
    for call, rst, keys_e in retries:
        if keys_e is None:
            continue
        rel = _closure(flows, loads(keys_e), backward=True)
        rn = cfg.node(rst)
        # read sites that feed the ordering: `<stream>.read` inside a statement (a loop header counts for its iterable)
        # that writes one of the names flowing into the retried key list
        sites = []
        for st, w, _rd in flows:
            if not (w & rel) or not cfg.has(st):
                continue
            own = [st.iter] if isinstance(st, (ast.For, ast.AsyncFor)) else [st]
            for e in own:
                for ra in _reads_in(e, v.locals):
                    if cfg.reaches(cfg.node(st), rn) and not any(ra is x for x, _s in sites):
                        sites.append((ra, st))
        if not sites:
            # no payload statistic: is the list re-ordered at all?
            reordered = any(isinstance(n, ast.keyword) and n.arg == "key" for st, w, _rd in flows if w & rel for n in ast.walk(st))
            if reordered:
                ctx.undecided("R13", "CURSOR", f, text, "the retried keys are ordered by a key function, but no read of a stream that feeds the ordering was located", call)
            else:
                ctx.ob("R13", "CURSOR", f, text, True, "the left-over keys are retried in an order that does not depend on the payload: no statistic", call, nontrivial=False)
            continue
        for ra, st in sites:
            n_sites += 1
            loop = st if isinstance(st, (ast.For, ast.AsyncFor, ast.While)) else fv.enclosing(st, (ast.For, ast.AsyncFor, ast.While))
            site = cfg.node(st)
            inside = {id(x) for x in ast.walk(loop)} if loop is not None else {id(st)}
            recv = strip_cast(ra.value)
            if not isinstance(recv, ast.Name) or recv.id not in v.locals:
                ctx.undecided("R13", "CURSOR", f, text, f"the stream that is counted is `{src(recv)[:40]}`, not a local: its position is not followed", ra)
                continue
            name = recv.id
            at = loop if loop is not None and any(ra is x for x in ast.walk(loop.iter if isinstance(loop, (ast.For, ast.AsyncFor)) else loop.test)) else st
            rd = reaching_defs(ctx, f, name, at)
            if not rd:
                ctx.undecided("R13", "CURSOR", f, text, "no definition of the counted stream reaches the counting loop", ra)
                continue
            all_defs = [n for n in (v._def_node(s0) for s0, _v in assignments_to(v.fn, name)) if n is not None]
            rebound = {p for p in v.params if assignments_to(v.fn, p)}
            calls = [c for c in fn_calls(v.fn) if (cs := fv.stmt_of(c)) is not None and cfg.has(cs) and id(cs) not in inside
                     and not any(id(x) in inside for x in fv.ancestors(c) if isinstance(x, ast.stmt))]
            bad, unknown = [], []
            for dst, val in rd:
                dn = ENTRY if dst is v.fn else v._def_node(dst)
                if dn is None:
                    unknown.append("a definition of the stream that is not a statement of the control-flow graph")
                    continue
                t = ("param", name) if dst is v.fn else (v.term(val, dst) if val is not None else v._bound(dst, name, 0))
                others = [n for n in all_defs if n != dn] + ([ENTRY] if name in v.params and dn != ENTRY else [])
                # branch edges that are infeasible for this binding: tests of never-rebound parameters whose outcome is
                # fixed on every path to the definition (named assumption: the dominating conditions of the definition)
                assume = {}
                if dst is not v.fn:
                    for txt, pol, _n in dominating_conditions(ctx, f, dst):
                        if txt in v.params and txt not in rebound:
                            assume[txt] = pol
                dead = []
                if assume:
                    for _nd, s0 in cfg.stmt.items():
                        if isinstance(s0, (ast.If, ast.While)):
                            tv = tv_eval(s0.test, assume)
                            if tv is True:
                                dead.append(cfg.edge_node(s0, "false"))
                            elif tv is False:
                                dead.append(cfg.edge_node(s0, "true"))
                for a in (_unwith(x) for x in _alts(t)):
                    # where is this object rewound / moved?
                    resets, moves = [], []
                    for c in calls:
                        cn = cfg.node(fv.stmt_of(c))
                        if _is_rewind(v, c, a):
                            resets.append(cn)
                            continue
                        recv_hit = (isinstance(c.func, ast.Attribute) and c.func.attr not in _POSITION_NEUTRAL
                                    and a in [_unwith(x) for x in _alts(v.term(c.func.value, c))])
                        arg_hit = any(a in [_unwith(x) for x in _alts(v.term(x0, c))] for x0 in list(c.args) + [k.value for k in c.keywords]
                                      if not isinstance(x0, ast.Starred))
                        if (recv_hit or arg_hit) and not (a[0] == "call" and v.node.get(a[1]) is c):
                            moves.append((cn, c))
                    resets = [r for r in resets if not any(m == r for m, _c in moves)]
                    origin = None  # None: positioned at 0 where it is bound; else (verdict, text)
                    if a[0] == "param":
                        origin = ("bad", f"parameter {a[1]}, whose position is wherever the caller left it")
                    elif a[0] == "call":
                        c0 = v.node[a[1]]
                        d0 = dotted(c0.func) or ""
                        cal = ctx.rs.resolve_call(f, c0)
                        if d0 in _OPENERS and d0.split(".")[0] not in v.locals:
                            origin = None
                        elif cal.kind == "func" and cal.func is not None:
                            origin = None if _returns_rewound(ctx, cal.func) else ("unknown", f"the result of {cal.func.fq}(), whose position is not known to be 0")
                        else:
                            origin = ("unknown", f"the result of {v.show(a)}, whose position is not followed")
                    else:
                        origin = ("unknown", f"{v.show(a)}: an object whose position is not followed")
                    avoid = resets + others + dead

                    def seg(x, y, av):
                        return x == y or cfg.reaches(x, y, avoiding=av)

                    if dn in dead or not seg(dn, site, others + dead):
                        continue  # this binding never reaches the counting loop
                    if origin is not None and dn not in resets and seg(dn, site, avoid):
                        # the object as it was when it was bound arrives at the counting loop
                        if origin[0] == "bad" and seg(ENTRY, dn, resets + dead):
                            bad.append(f"the counted stream can be {origin[1]} (no rewind on the way to the counting loop)")
                        elif origin[0] == "unknown":
                            unknown.append(f"the counted stream can be {origin[1]}")
                    for mn, c in moves:
                        before = a[0] == "param" and mn != dn and seg(mn, dn, resets + dead) and dn not in resets and seg(dn, site, avoid)
                        after = mn != dn and cfg.reaches(dn, mn, avoiding=others + dead) and seg(mn, site, avoid) and mn != site
                        if before or after:
                            bad.append(f"`{src(c)[:60]}` moves the stream ({v.show(a)}) and no rewind follows on a path to the counting loop")
            bad = list(dict.fromkeys(bad))
            if bad:
                ctx.ob("R13", "CURSOR", f, text, False, "the byte statistic that orders the left-over keys is counted from wherever the stream happens to be, not from "
                       "its start: " + "; ".join(bad[:3]) + " - which of two candidate blocks under different left-over keys comes first then depends on the "
                       "amount of data in front of them", ra)
            elif unknown:
                ctx.undecided("R13", "CURSOR", f, text, "; ".join(dict.fromkeys(unknown)), ra)
            else:
                ctx.ob("R13", "CURSOR", f, text, True, "on every path to the counting loop the stream it reads was rewound (absolute seek(0) / constructed at "
                       "position 0) after its last use", ra)
    if n_sites:
        ctx.rep.count("retry_statistic_read_sites", n_sites, floor=1)


def r14(ctx):
    """All-keys mode tries every left-over key: what is handed to the retry is the make_byte_list() result changed only
    by operations that keep its elements (sorting, copying, reversing).  A selection that depends on the payload (keep
    only the bytes the statistic saw), a truncation or an in-place removal drops keys that were asked for."""
    text = "all-keys retry tries every left-over key"
    f, v, retries, flows = _retry_context(ctx)
    cfg, fv = v.cfg, v.fv
    if not retries:
        ctx.undecided("R14", "AGREE", f, text, "no recursive retry with the left-over keys located", f.node)
        return
    # names whose value derives from bytes read from a stream (forward closure from the statements that mention a read)
    seed = set()
    for st, w, _rd in flows:
        own = [st.iter] if isinstance(st, (ast.For, ast.AsyncFor)) else [st]
        if any(_reads_in(e, v.locals) for e in own):
            seed |= w
    tainted = _closure(flows, seed, backward=False) if seed else set()

    def payload_names(e):
        return sorted({n.id for n in ast.walk(e) if isinstance(n, ast.Name) and isinstance(n.ctx, ast.Load)} & tainted)

    def classify(e, at, depth=0):
        """-> ("full", None) the left-over list up to order | ("dropped", why) | ("unknown", why)"""
        e = strip_cast(e)
        if depth > 8:
            return "unknown", "definition chain too deep"
        if isinstance(e, ast.Name) and e.id in v.locals:
            rd = reaching_defs(ctx, f, e.id, at)
            if len(rd) != 1 or rd[0][0] is v.fn or rd[0][1] is None:
                return "unknown", f"`{e.id}` has several definitions / is not bound by a plain assignment"
            return classify(rd[0][1], rd[0][0], depth + 1)
        if isinstance(e, ast.Call):
            d = dotted(e.func)
            if v.callee_fq(e) == FQ_BYTELIST:
                return "full", None
            if d in _ORDER_ONLY and d not in v.locals and e.args and not isinstance(e.args[0], ast.Starred):
                return classify(e.args[0], at, depth + 1)
            if isinstance(e.func, ast.Attribute) and e.func.attr == "copy" and not e.args:
                return classify(e.func.value, at, depth + 1)
            if d == "filter" and "filter" not in v.locals and len(e.args) == 2:
                r = classify(e.args[1], at, depth + 1)
                pn = payload_names(e.args[0])
                if r[0] == "full" and pn:
                    return "dropped", f"`{src(e)[:70]}` keeps only the left-over keys selected by payload-derived data ({', '.join(pn)})"
                return "unknown", f"`{src(e)[:50]}` selects keys"
            return "unknown", f"`{src(e)[:50]}`"
        if isinstance(e, (ast.ListComp, ast.GeneratorExp, ast.SetComp)) and len(e.generators) == 1:
            g = e.generators[0]
            subs = [g.iter] + [n for t in g.ifs for n in ast.walk(t) if isinstance(n, ast.Name) and isinstance(n.ctx, ast.Load)]
            about_left = [x for x in subs if isinstance(strip_cast(x), (ast.Name, ast.Call)) and classify(x, at, depth + 1)[0] == "full"]
            identity = isinstance(g.target, ast.Name) and isinstance(strip_cast(e.elt), ast.Name) and strip_cast(e.elt).id == g.target.id
            if identity and not g.ifs:
                return classify(g.iter, at, depth + 1)
            if about_left and identity:
                # what selects: the iterable unless it is the left-over list itself, and every tainted name of the
                # filter other than the left-over list and the comprehension variable (the *order* of the left-over
                # list may depend on the payload; its elements do not)
                left_ids = {id(x) for x in about_left}
                sel = ([] if id(g.iter) in left_ids else [g.iter]) + [n for t in g.ifs for n in ast.walk(t) if isinstance(n, ast.Name)
                                                                    and isinstance(n.ctx, ast.Load) and id(n) not in left_ids and n.id != g.target.id]
                pn = sorted({n for x in sel for n in payload_names(x)})
                if pn:
                    return "dropped", (f"`{src(e)[:80]}` keeps only the left-over keys that payload-derived data ({', '.join(pn)}) selects: a key the "
                                       "statistic did not see is never tried")
                return "unknown", f"`{src(e)[:60]}` selects keys by a test that does not depend on the payload"
            return "unknown", f"`{src(e)[:60]}`"
        if isinstance(e, ast.Subscript) and isinstance(e.slice, ast.Slice):
            r = classify(e.value, at, depth + 1)
            sl = e.slice
            if r[0] != "full":
                return r
            if sl.lower is None and sl.upper is None and sl.step is None:
                return r
            if sl.step is None and sl.lower is None and sl.upper is not None:
                t = v.term(sl.upper, at)
                if t[0] == "global":
                    t = v._global_const(t[1]) or t
                # with the default keys 256 - len(defaults) keys are left over (reference table); a constant bound below
                # that keeps fewer
                if t[0] == "const" and t[1] == "int" and 0 <= t[2] < 256 - len(REF_DEFAULT_KEYS):
                    return "dropped", f"`{src(e)[:60]}` keeps at most {t[2]} of the {256 - len(REF_DEFAULT_KEYS)} keys that are left over with the default keys"
            return "unknown", f"`{src(e)[:60]}` takes a part of the left-over keys"
        return "unknown", f"`{src(e)[:50]}`"

    for call, rst, keys_e in retries:
        if keys_e is None:
            ctx.undecided("R14", "AGREE", f, text, "the retry has no key argument", call)
            continue
        verdict, why = classify(keys_e, call)
        # in-place removals from the list that is handed on
        drops = []
        if isinstance(strip_cast(keys_e), ast.Name):
            kname = strip_cast(keys_e).id
            rn = cfg.node(rst)
            for n in body_walk(v.fn):
                st = fv.stmt_of(n)
                if st is None or not cfg.has(st) or not cfg.reaches(cfg.node(st), rn):
                    continue
                hit = None
                if isinstance(n, ast.Call) and isinstance(n.func, ast.Attribute) and n.func.attr in _DROPPERS and _root_name(n.func.value) == kname:
                    hit = n
                elif isinstance(n, ast.Delete) and any(isinstance(t, ast.Subscript) and _root_name(t) == kname for t in n.targets):
                    hit = n
                if hit is not None and v.term(ast.Name(id=kname, ctx=ast.Load()), st) == v.term(keys_e, call):
                    drops.append(hit)
        if verdict == "dropped":
            ctx.ob("R14", "AGREE", f, text, False, why + " - with all keys requested a block under such a key is not found (ValueError) although its key was asked for", call)
        elif drops:
            ctx.undecided("R14", "AGREE", f, text, "keys are removed in place from the list that is retried (" + ", ".join(f"`{src(d)[:40]}`" for d in drops[:3]) +
                          "): whether a key that was asked for is lost is not followed", call)
        elif verdict == "full":
            ctx.ob("R14", "AGREE", f, text, True, "the retried list is the make_byte_list() result, changed only by operations that keep its elements "
                   "(sort / sorted / copy / reversed)", call)
        else:
            ctx.undecided("R14", "AGREE", f, text, "how the retried key list derives from the left-over keys is not followed: " + why, call)


# ============================================================================ R15: hits in file order
def r15(ctx):
    """`the first [candidate] in ... file order is chosen`: from_file takes the first block find_beacon_config_bytes
    yields, and that generator yields in the order of the scanner - so within one key the scanner must report its hits
    in ascending offset order.  Decided for the hits of one read round (the hits reported between two reads of the file):
    (a) each yield site reports `<terms fixed during its search loop> + <match index>` where the match index is advanced
    by `<buffer>.find(needle, <index> + k)`, k >= 1 (lemma L1: str/bytes.find(sub, start) returns -1 or an index >=
    start, so the non-negative results of such a progression increase strictly; `rfind` towards smaller indices ->
    descending -> violated); (b) two yield sites that can both report in one round, the second after the first: with
    offset = <position before the read> + R, the order holds if R_first < 0 <= R_second and is broken if
    R_second < 0 <= R_first, where `R >= 0` is justified by `R is a find() result that was tested against -1` (lemma
    L2: find returns -1 or a non-negative index) and `R < 0` by a dominating comparison `A < B` with A - B == R in
    polynomial normal form; any other form -> undecided.  That hits of a later round lie behind those of an earlier
    one follows from the carry-over obligations (R8) and is not decided again here."""
    from csverif.absint import SymPoly, sympoly
    from csverif.q import inline

    text = "hits of one read round are reported in ascending file order"
    f = ctx.repo.func(FQ_SCANNER)
    v = _Val(ctx, f)
    cfg, fv = v.cfg, v.fv
    if len(v.params) < 2:
        ctx.undecided("R15", "LOOP", f, text, "iter_find_needle no longer takes (file, needle, ..)", f.node)
        return
    fp_t, needle = ("param", v.params[0]), v.params[1]
    reads = [c for c in fn_calls(f.node) if _receiver_is(v, c, fp_t, "read")]
    ys = [y for y in body_walk(f.node) if isinstance(y, ast.Yield) and y.value is not None and fv.enclosing(y, (ast.Lambda,)) is None]
    rst = fv.stmt_of(reads[0]) if len(reads) == 1 else None
    if rst is None or not cfg.has(rst) or not ys or fv.enclosing(rst, (ast.For, ast.While)) is None:
        ctx.undecided("R15", "LOOP", f, text, "the scanner is not one loop around a single read() of the file with yields in it", f.node)
        return
    rn = cfg.node(rst)
    posvars = [st.targets[0].id for st in statements(f.node) if isinstance(st, ast.Assign) and len(st.targets) == 1 and isinstance(st.targets[0], ast.Name)
               and isinstance(st.value, ast.Call) and _receiver_is(v, st.value, fp_t, "tell")]
    stop = frozenset(posvars)

    def poly(e):
        try:
            return sympoly(inline(f.node, e, stop=stop))
        except Exception:
            return None

    def find_defs(name):
        """definitions of a match-index local: ("init", const) | ("find"|"rfind", call) | ("other", node)"""
        out = []
        for st, val in assignments_to(f.node, name):
            val = strip_cast(val) if val is not None else None
            if isinstance(val, ast.Call) and isinstance(val.func, ast.Attribute) and val.func.attr in ("find", "rfind", "index", "rindex") and val.args \
                    and v.term(val.args[0], st) == ("param", needle):
                out.append((val.func.attr, val, st))
            elif val is not None and v.term(val, st)[0] == "const":
                out.append(("init", val, st))
            else:
                out.append(("other", val, st))
        return out

    sites = []
    for y in ys:
        yn = v.stmt_node(y)
        P = poly(y.value)
        if yn is None or P is None:
            ctx.undecided("R15", "LOOP", f, text, f"reported offset `{src(y.value)[:50]}` is not a polynomial in the scanner's locals", y)
            return
        idx = [a for a in P.atoms() if a in v.locals and any(k in ("find", "rfind", "index", "rindex") for k, _c, _s in find_defs(a))]
        if len(idx) != 1:
            ctx.undecided("R15", "LOOP", f, text, f"reported offset `{src(y.value)[:50]}` does not contain exactly one match index (result of <buffer>.find(needle, ..))", y)
            return
        ix = idx[0]
        coeff = P - SymPoly.atom(ix)
        if ix in coeff.atoms():
            ctx.undecided("R15", "LOOP", f, text, f"reported offset is not <fixed terms> + <match index>: {P!r}", y)
            return
        inner = fv.enclosing(y, (ast.For, ast.While))
        defs = find_defs(ix)
        kinds = {k for k, _c, _s in defs}
        # (a) the progression of the match index inside the search loop
        adv = [(k, c, st) for k, c, st in defs if inner is not None and any(st is x for x in ast.walk(inner))]
        verdict, why = None, ""
        if not adv or inner is None or any(k in ("init", "other") for k, _c, _s in adv):
            verdict, why = None, "the match index is not advanced by find() calls (only) inside one search loop"
        else:
            changed = _mutated_names(inner) - {ix}
            moving = sorted(a for a in coeff.atoms() if set(re.findall(r"[A-Za-z_]\w*", a)) & changed)
            for k, c, st in adv:
                start = c.args[1] if len(c.args) > 1 else None
                sp = poly(start) if start is not None else None
                step = (sp - SymPoly.atom(ix)).const_value() if sp is not None else None
                if k in ("find", "index") and step is not None and step >= 1 and len(c.args) == 2 and not moving:
                    verdict = True if verdict is None else verdict
                    why = "the match index only advances (find(needle, <index> + k), k >= 1) and the other terms are fixed during the search loop"
                elif k in ("rfind", "rindex") and len(c.args) >= 3 and poly(c.args[2]) is not None and ix in poly(c.args[2]).atoms() and not moving:
                    verdict, why = False, "the buffer is searched backwards (rfind with the previous match as end bound): the hits of one read are reported in descending order"
                    break
                else:
                    verdict, why = None, f"progression `{src(c)[:50]}` of the match index is not of a form this rule orders"
                    break
        if verdict is None:
            ctx.undecided("R15", "LOOP", f, text, why, y)
        else:
            ctx.ob("R15", "LOOP", f, text, verdict, why, y)
        # sign facts for R = offset - <position before the read>
        R = None
        if len(posvars) == 1 and posvars[0] in P.atoms():
            R = P - SymPoly.atom(posvars[0])
        sign = None
        if R is not None:
            conds = dominating_conditions(ctx, f, y)
            here = {id(st0) for st0, _v in reaching_defs(ctx, f, ix, y)}
            rk = {k for k, _c, st0 in defs if id(st0) in here}
            if R == SymPoly.atom(ix) and rk and rk <= {"find", "index", "rfind", "rindex"} and len(here) == len([1 for _k, _c, st0 in defs if id(st0) in here]):
                # lemma L2: find()/rfind() return -1 or an index >= 0 (index()/rindex() never return -1); the value
                # reported is the result of such a call (reaching definitions at the yield)
                if rk <= {"index", "rindex"}:
                    sign = ">=0"
                for txt, pol, tn in conds:
                    for l, op, r in compare_parts(tn) if isinstance(tn, ast.Compare) else ():
                        pl, pr = poly(l), poly(r)
                        if pl == SymPoly.atom(ix) and pr is not None and pr.const_value() is not None:
                            cv = pr.const_value()
                            if (isinstance(op, ast.Eq) and cv == -1 and pol is False) or (isinstance(op, ast.NotEq) and cv == -1 and pol is True) \
                                    or (isinstance(op, ast.GtE) and cv == 0 and pol is True) or (isinstance(op, ast.Lt) and cv == 0 and pol is False) \
                                    or (isinstance(op, ast.Gt) and cv == -1 and pol is True):
                                sign = ">=0"
            if sign is None:
                for txt, pol, tn in conds:
                    for l, op, r in compare_parts(tn) if isinstance(tn, ast.Compare) else ():
                        pl, pr = poly(l), poly(r)
                        if pl is None or pr is None:
                            continue
                        if pl - pr == R and ((isinstance(op, ast.Lt) and pol is True) or (isinstance(op, ast.GtE) and pol is False)):
                            sign = "<0"
                        elif pl - pr == R and ((isinstance(op, ast.GtE) and pol is True) or (isinstance(op, ast.Lt) and pol is False)):
                            sign = ">=0"
        sites.append((y, yn, sign))
    # (b) two sites that report in the same round
    posdefs = [cfg.node(st) for st, _v in assignments_to(f.node, posvars[0]) if cfg.has(st)] if len(posvars) == 1 else []
    for i, (ya, na, sa) in enumerate(sites):
        for j, (yb, nb, sb) in enumerate(sites):
            if i == j or na == nb or not cfg.reaches(na, nb, avoiding=[rn] + posdefs):
                continue
            t2 = "hits of one read round are reported in ascending file order (two reporting sites)"
            if cfg.reaches(nb, na, avoiding=[rn] + posdefs):
                if i < j:
                    ctx.undecided("R15", "LOOP", f, t2, "two yield sites alternate within one read round: their relative order is not followed", yb)
                continue
            if sa == "<0" and sb == ">=0":
                ctx.ob("R15", "LOOP", f, t2, True, "the site that reports first in a round reports offsets before the position of the read, the later site offsets at or behind it", yb)
            elif sa == ">=0" and sb == "<0":
                ctx.ob("R15", "LOOP", f, t2, False, f"within one read round `yield {src(ya.value)[:40]}` reports all its hits (offsets at or behind the position before the "
                       f"read) before `yield {src(yb.value)[:40]}` reports hits that lie in front of that position: a hit that straddles the read boundary comes "
                       "after later hits, so with two candidate blocks under one key the later one in the file is returned", yb)
            else:
                ctx.undecided("R15", "LOOP", f, t2, "two yield sites report in the same read round; the order of their offsets could not be established "
                              f"(first site: offset - position {sa or 'unknown'}, second: {sb or 'unknown'})", yb)


# ============================================================================ R8
def r8(ctx):
    try:
        from rules import c15
    except ImportError:
        return
    if hasattr(c15, "scanner_obligations"):
        c15.scanner_obligations(ctx, rule_prefix="R8")
