"""C01 - Beacon configuration extraction is exact and complete (structural spine)."""

from __future__ import annotations

import ast

from csverif import cdefs as cdefs_mod
from csverif.astutil import (
    assignments_to, body_walk, const_eval, dotted, fn_calls, is_const, kwarg, module_env, NotConst, params, src,
    statements, strip_cast, conjuncts,
)
from csverif.cfg import ENTRY, EXIT, RAISE
from csverif.q import FuncView, all_origins, calls_to, guarded_by, origin, raise_class, reaching_origins

REF_DEFAULT_KEYS = [b"\x69", b"\x2e", b"\x00"]  # property statement: defaults 0x69, 0x2e, 0x00 in priority order
REF_PATCH_SIZE = 4096


def run(ctx):
    rep = ctx.rep
    rep.explanation = (
        "Static analysis of the extraction spine in beacon.py (find_beacon_config_bytes, iter_beacon_config_blocks, "
        "BeaconConfig.from_file/from_path/from_bytes): default key table, needle derived from the Setting struct "
        "definition, def-use agreement of the XOR key and scan position, search-phase order and 'not found' gating by "
        "CFG dominance, first-candidate-wins (no back edge from the candidate loop), exit analysis. The scanner's offset "
        "algebra obligations of C15 are imported (R8). Decides these structural necessary conditions; does not decide "
        "that decoded settings equal the embedded ones for all payloads."
    )
    rep.not_decided = [
        "equality of extracted settings with the embedded block for all payloads/offsets/buffer sizes",
        "container handling (PE / XorEncoded) - see C09, C18",
        "frequency ordering of the 254 left-over keys",
    ]
    rep.trusted_base = ["CPython ast", "networkx dominators", "C-definition parser (csverif.cdefs)"]
    rep.assumptions = ["iter_find_needle reports true offsets (C15 obligations, imported as R8)"]
    r1_r2(ctx)
    r3(ctx)
    r4_r5(ctx)
    r6_r7(ctx)
    r8(ctx)
    # blocks inside XorEncoded stages are found by scanning and then re-reading the decoding file view: its position
    # algebra and nonce chaining (C09.R1-R3) are necessary conditions here as well
    from rules import c09

    for fn in (c09.r1, c09.r2, c09.r3):
        ctx.import_obligations("R9", fn)


def _yield_values(fn):
    out = []
    for n in body_walk(fn):
        if isinstance(n, (ast.Yield, ast.YieldFrom)):
            out.append(n)
    return out


# ---------------------------------------------------------------------------- R1 / R2
def r1_r2(ctx):
    mod = ctx.repo.module("beacon")
    node = ctx.repo.const("beacon.DEFAULT_XOR_KEYS")
    try:
        val = list(const_eval(node, module_env(mod)))
    except (NotConst, TypeError):
        val = None
    ctx.ob("R1", "TABLE", "beacon.py::DEFAULT_XOR_KEYS", src(node)[:60], val == REF_DEFAULT_KEYS,
           f"DEFAULT_XOR_KEYS evaluates to {val!r}; required {REF_DEFAULT_KEYS!r} in this order", node)
    f = ctx.repo.func("beacon.find_beacon_config_bytes")
    cd = ctx.cdefs("beacon").get("cs_struct")
    if cd is None:
        ctx.rep.error("anchor vanished: cs_struct definitions in beacon.py")
        return
    setting = cd.struct("Setting")
    bs, stype = cd.enum("BeaconSetting"), cd.enum("SettingsType")
    ref = cdefs_mod.serialise(cd, setting, {
        "index": bs.by_name().get("SETTING_PROTOCOL", -1),
        "type": stype.by_name().get("TYPE_SHORT", -1),
        "length": 2,
    }) + b"\x00"
    hdr = None
    for st, v in assignments_to(f.node, "CONFIG_HEADER"):
        hdr = v
    # the needle: first argument of xor() whose result is handed to the scanner
    scans = calls_to(ctx, f, target_fq="utils.iter_find_needle")
    needle_const = None
    needle_node = None
    if scans:
        a = scans[0].args[1] if len(scans[0].args) > 1 else kwarg(scans[0], "needle")
        o = origin(f.node, a) if a is not None else None
        if isinstance(o, ast.Call) and o.args:
            needle_node = origin(f.node, o.args[0])
            try:
                needle_const = const_eval(needle_node)
            except NotConst:
                pass
    ctx.ob("R2", "TABLE", f, "needle header", needle_const == ref,
           f"scan needle (before XOR) is {needle_const!r}; serialisation of Setting(SETTING_PROTOCOL, TYPE_SHORT, length=2)+00 "
           f"from CS_DEF ({'big' if cd.endian == '>' else 'little'}-endian) is {ref!r}", needle_node or f.node)
    ps = None
    fh_p = params(f.node)[0]
    for c in fn_calls(f.node):
        if isinstance(c.func, ast.Attribute) and c.func.attr == "read" and dotted(c.func.value) == fh_p and c.args:
            try:
                ps = const_eval(origin(f.node, c.args[0]))
            except NotConst:
                ps = src(c.args[0])
    ctx.ob("R2", "TABLE", f, "block size", ps == REF_PATCH_SIZE, f"block size read is {ps} (4096 required)", f.node)


# ---------------------------------------------------------------------------- R3
def r3(ctx):
    f = ctx.repo.func("beacon.find_beacon_config_bytes")
    ps = params(f.node)
    fh_p, key_p = ps[0], ps[1]
    for p in ps[:2]:
        if assignments_to(f.node, p):
            ctx.ob("R3", "AGREE", f, f"{p} rebound", False, f"parameter {p} is rebound", f.node)
    scans = calls_to(ctx, f, target_fq="utils.iter_find_needle")
    if len(scans) != 1:
        ctx.ob("R3", "AGREE", f, "iter_find_needle(...)", False, f"expected exactly one scanner call, found {len(scans)}", f.node)
        return
    sc = scans[0]
    a0 = sc.args[0] if sc.args else kwarg(sc, "fp")
    so = kwarg(sc, "start_offset") if kwarg(sc, "start_offset") is not None else (sc.args[2] if len(sc.args) > 2 else None)
    mo = kwarg(sc, "max_offset") if kwarg(sc, "max_offset") is not None else (sc.args[3] if len(sc.args) > 3 else None)
    ctx.ob("R3", "AGREE", f, src(sc), dotted(a0) == fh_p and so is not None and is_const(so, 0) and (mo is None or is_const(mo, 0)),
           f"scanner runs over {src(a0)} from start_offset={src(so)} with max_offset={src(mo)} (required: the file, 0, no limit)", sc)
    needle = sc.args[1] if len(sc.args) > 1 else kwarg(sc, "needle")
    no = origin(f.node, needle)
    nk = no.args[1] if isinstance(no, ast.Call) and len(no.args) > 1 else None
    n_is_xor = isinstance(no, ast.Call) and ctx.rs.resolve_call(f, no).fq == "utils.xor"
    ctx.ob("R3", "AGREE", f, "needle key", n_is_xor and dotted(nk) == key_p, f"needle is {src(no)}: XOR with key operand {src(nk)} (must be parameter {key_p})", sc)
    fv = FuncView.of(f.node)
    loop = fv.enclosing(sc, (ast.For,))
    if loop is None or loop.iter is not sc and strip_cast(loop.iter) is not sc:
        ctx.ob("R3", "AGREE", f, "for pos in iter_find_needle", False, "scanner result is not consumed by a for loop directly", sc)
        return
    pos = dotted(loop.target)
    seeks = [c for c in ast.walk(loop) if isinstance(c, ast.Call) and isinstance(c.func, ast.Attribute) and c.func.attr == "seek"]
    reads = [c for c in ast.walk(loop) if isinstance(c, ast.Call) and isinstance(c.func, ast.Attribute) and c.func.attr == "read"]
    seek_ok = len(seeks) == 1 and dotted(seeks[0].func.value) == fh_p and len(seeks[0].args) == 1 and dotted(seeks[0].args[0]) == pos
    ctx.ob("R3", "AGREE", f, "fh.seek(pos)", seek_ok, f"block read position: {[src(s) for s in seeks]} (must be exactly the scanner's loop variable {pos})", loop)
    def _is_patch(e):
        try:
            return const_eval(origin(f.node, e)) == REF_PATCH_SIZE
        except NotConst:
            return False
    read_ok = len(reads) == 1 and dotted(reads[0].func.value) == fh_p and reads[0].args and _is_patch(reads[0].args[0])
    if seek_ok and read_ok:
        read_ok = (seeks[0].lineno, seeks[0].col_offset) < (reads[0].lineno, reads[0].col_offset)
    ctx.ob("R3", "AGREE", f, "fh.read(<patch size>)", bool(read_ok), f"block read: {[src(s) for s in reads]} after the seek", loop)
    ys = [y for y in ast.walk(loop) if isinstance(y, ast.Yield)]
    y_ok = False
    detail = "no yield in scan loop"
    if len(ys) == 1 and ys[0].value is not None:
        yv = origin(f.node, ys[0].value)
        if isinstance(yv, ast.Call) and ctx.rs.resolve_call(f, yv).fq == "utils.xor" and len(yv.args) == 2:
            d0 = origin(f.node, yv.args[0])
            y_ok = reads and d0 is reads[0] and dotted(yv.args[1]) == key_p
            detail = f"yields {src(yv)}: data operand is the block read={d0 is (reads[0] if reads else None)}, key operand {src(yv.args[1])} (must be {key_p})"
        else:
            detail = f"yields {src(yv)} (must be xor(<block>, {key_p}))"
    ctx.ob("R3", "AGREE", f, "yield xor(data, xorkey)", bool(y_ok), detail, loop)
    # every hit is yielded: no path through the scan loop body skips the yield (a filtered hit is a lost block)
    cfg = ctx.cfg(f)
    if ys:
        ynode = cfg.node(fv.stmt_of(ys[0]))
        every = cfg.all_paths_pass(cfg.edge_node(loop, "iter"), cfg.node(loop), [ynode]) and not cfg.reaches(cfg.edge_node(loop, "iter"), cfg.node(loop), avoiding=[ynode])
        exits = [s2 for s2 in ast.walk(loop) if isinstance(s2, (ast.Break, ast.Return, ast.Continue))]
        ctx.ob("R3", "DOM", f, "every hit yielded", every and not exits,
               "each needle hit leads to exactly one yielded block (no conditional skip, break or return in the scan loop)" if every and not exits else
               "a needle hit can be skipped: " + " -> ".join(cfg.witness_path(cfg.edge_node(loop, "iter"), cfg.node(loop), avoiding=[ynode])[-5:]), loop)


# ---------------------------------------------------------------------------- R4 / R5
def r4_r5(ctx):
    f = ctx.repo.func("beacon.iter_beacon_config_blocks")
    cfg = ctx.cfg(f)
    fv = FuncView.of(f.node)
    ps = params(f.node)
    fobj_p = ps[0]
    # default key list
    dk = [v for st, v in assignments_to(f.node, "xor_keys")]
    dk_ok = len(dk) == 1 and isinstance(dk[0], ast.BoolOp) and isinstance(dk[0].op, ast.Or) and dotted(dk[0].values[0]) == "xor_keys" and dotted(dk[0].values[-1]) == "DEFAULT_XOR_KEYS"
    ctx.ob("R4", "AGREE", f, "xor_keys = xor_keys or DEFAULT_XOR_KEYS", dk_ok, f"key list default: {[src(d) for d in dk]}", f.node)
    y_enc, y_raw, y_rec = [], [], []
    for y in _yield_values(f.node):
        st = fv.stmt_of(y)
        if isinstance(y, ast.YieldFrom):
            y_rec.append(y)
            continue
        v = y.value
        if not (isinstance(v, ast.Tuple) and len(v.elts) == 2 and isinstance(v.elts[1], ast.Dict)):
            ctx.ob("R4", "AGREE", f, src(y), False, "yield is not (config_block, {xorkey, xorencoded})", y)
            continue
        d = {const_eval(k): val for k, val in zip(v.elts[1].keys, v.elts[1].values) if isinstance(k, ast.Constant)}
        if set(d) != {"xorkey", "xorencoded"}:
            ctx.ob("R4", "AGREE", f, src(y), False, f"extra_info keys are {sorted(d)}", y)
            continue
        # the inner loop: for config_block in find_beacon_config_bytes(F, K)
        inner = fv.enclosing(y, (ast.For,))
        ok = False
        detail = "yield is not inside a `for <block> in find_beacon_config_bytes(file, key)` loop"
        if inner is not None and isinstance(strip_cast(inner.iter), ast.Call):
            call = strip_cast(inner.iter)
            cal = ctx.rs.resolve_call(f, call)
            if cal.kind == "func" and cal.func.fq == "beacon.find_beacon_config_bytes" and len(call.args) >= 2:
                file_arg, key_arg = call.args[0], call.args[1]
                outer = fv.enclosing(inner, (ast.For,))
                key_is_loopvar = outer is not None and dotted(outer.target) == dotted(key_arg) and dotted(outer.iter) == "xor_keys"
                recorded = dotted(d["xorkey"]) == dotted(key_arg)
                block_ok = dotted(v.elts[0]) == dotted(inner.target)
                # which file?
                forigs = reaching_origins(ctx, f, file_arg, call)
                is_xf = all(isinstance(strip_cast(o), ast.Call) and ctx.rs.resolve_call(f, strip_cast(o)).fq == "xordecode.XorEncodedFile.from_file" for o in forigs)
                is_raw = all(dotted(o) == fobj_p for o in forigs)
                flag = d["xorencoded"]
                flag_ok = (is_xf and is_const(flag, True)) or (is_raw and is_const(flag, False))
                ok = key_is_loopvar and recorded and block_ok and flag_ok
                detail = (f"key iterates xor_keys={key_is_loopvar}; recorded xorkey is the searched key={recorded}; yields the found block={block_ok}; "
                          f"file is {'XorEncoded view' if is_xf else 'raw file' if is_raw else 'mixed/unknown'} and xorencoded={src(flag)} -> {flag_ok}")
                (y_enc if is_xf else y_raw).append(y)
        ctx.ob("R4", "AGREE", f, src(y), ok, detail, y)
    ctx.rep.count("extraction_yield_sites", len(y_enc) + len(y_raw) + len(y_rec), floor=3)
    # R5: found flag set before each yield; later phases gated by `not found`
    # the flag: the one local that is assigned the constant True inside the candidate loops
    flags = set()
    for y in y_enc + y_raw:
        lp = fv.enclosing(y, (ast.For,))
        while lp is not None:
            for s2 in ast.walk(lp):
                if isinstance(s2, ast.Assign) and is_const(s2.value, True) and dotted(s2.targets[0]):
                    flags.add(dotted(s2.targets[0]))
            lp = fv.enclosing(lp, (ast.For,))
    flag = sorted(flags)[0] if len(flags) == 1 else "found"
    inits = [v for st, v in assignments_to(f.node, flag) if is_const(v, False)]
    ctx.ob("R5", "DOM", f, "found flag", len(flags) == 1 and bool(inits), f"one boolean flag ({sorted(flags)}) records that a candidate was found; it starts as False={bool(inits)}")

    def not_found(test):
        if isinstance(test, ast.UnaryOp) and isinstance(test.op, ast.Not) and dotted(test.operand) == flag:
            return True
        if dotted(test) == flag:
            return False
        return None

    for y in y_enc + y_raw:
        st = fv.stmt_of(y)
        loop = fv.enclosing(y, (ast.For,))
        sets = [s for s in ast.walk(loop) if isinstance(s, ast.Assign) and dotted(s.targets[0]) == flag and is_const(s.value, True)] if loop else []
        ok = any(cfg.dominates(cfg.node(s), cfg.node(st)) for s in sets)
        ctx.ob("R5", "DOM", f, "found=True before yield [" + ("xorencoded" if y in y_enc else "raw") + "]", ok, "`found = True` dominates the yield inside its loop" if ok else "a candidate can be yielded without recording found=True (later phases would run too)", y)
    for y in y_raw:
        ok = guarded_by(ctx, f, y, not_found)
        ctx.ob("R5", "DOM", f, "raw search gated", ok, "raw-file search is dominated by the `not found` edge" if ok else "raw-file search runs even when the XorEncoded search found a block", y)
        for ye in y_enc:
            back = cfg.reaches(cfg.node(fv.stmt_of(y)), cfg.node(fv.stmt_of(ye)))
            ctx.ob("R5", "DOM", f, "phase order enc<raw", not back, "XorEncoded search precedes the raw search" if not back else "raw search can precede the XorEncoded search", y)
    for y in y_rec:
        ok = guarded_by(ctx, f, y, not_found) and guarded_by(ctx, f, y, lambda t: True if dotted(t) == ps[3] else None)
        ctx.ob("R5", "DOM", f, "all-keys retry gated", ok, "retry is dominated by `not found and all_xor_keys`" if ok else "all-keys retry is not gated by `not found and all_xor_keys`", y)
        for yo in y_enc + y_raw:
            back = cfg.reaches(cfg.node(fv.stmt_of(y)), cfg.node(fv.stmt_of(yo)))
            ctx.ob("R5", "DOM", f, "phase order default<all", not back, "default-key phases precede the retry" if not back else "retry can precede a default-key phase", y, nontrivial=False)
        call = y.value
        rec_ok = False
        detail = "retry is not a recursive call with the left-over keys"
        if isinstance(call, ast.Call):
            cal = ctx.rs.resolve_call(f, call)
            if cal.kind == "func" and cal.func.fq == f.fq:
                keys = call.args[1] if len(call.args) > 1 else kwarg(call, "xor_keys")
                ko = origin(f.node, keys) if keys is not None else None
                from_ml = isinstance(ko, ast.Call) and ctx.rs.resolve_call(f, ko).fq == "beacon.make_byte_list" and dotted(kwarg(ko, "exclude") or (ko.args[0] if ko.args else None)) == "xor_keys"
                axk = kwarg(call, "all_xor_keys")
                term = axk is not None and is_const(axk, False)
                same_file = call.args and dotted(call.args[0]) == fobj_p
                xd = kwarg(call, "xordecode")
                rec_ok = from_ml and term and same_file and (xd is None or dotted(xd) == "xordecode")
                detail = f"keys from make_byte_list(exclude=xor_keys)={from_ml}; all_xor_keys=False (bounded recursion)={term}; same file={bool(same_file)}"
        ctx.ob("R5", "AGREE", f, src(y), rec_ok, detail, y)
    # make_byte_list: all 256 single bytes minus exclude
    mb = ctx.repo.func("beacon.make_byte_list")
    txt = " ".join(src(s) for s in statements(mb.node) if isinstance(s, ast.Return))
    r256 = any(isinstance(c, ast.Call) and dotted(c.func) == "range" and c.args and is_const(c.args[0], 256) for c in ast.walk(mb.node))
    ctx.ob("R5", "TABLE", mb, "range(256)", r256 and "exclude" in txt, f"left-over keys enumerate range(256) minus exclude: {txt}", mb.node)


# ---------------------------------------------------------------------------- R6 / R7
def r6_r7(ctx):
    f = ctx.repo.func("beacon.BeaconConfig.from_file")
    cfg = ctx.cfg(f)
    fv = FuncView.of(f.node)
    ps = params(f.node)  # cls, fobj, xor_keys, all_xor_keys
    loops = []
    for st in statements(f.node):
        if isinstance(st, ast.For) and isinstance(strip_cast(st.iter), ast.Call):
            cal = ctx.rs.resolve_call(f, strip_cast(st.iter))
            if cal.kind == "func" and cal.func.fq == "beacon.iter_beacon_config_blocks":
                loops.append(st)
    if len(loops) != 1:
        ctx.ob("R6", "DOM", f, "for ... in iter_beacon_config_blocks", False, f"expected one candidate loop, found {len(loops)}", f.node)
        return
    loop = loops[0]
    call = strip_cast(loop.iter)
    fwd = (call.args and dotted(call.args[0]) == ps[1] and dotted(kwarg(call, "xor_keys")) == "xor_keys" and dotted(kwarg(call, "all_xor_keys")) == "all_xor_keys"
           and kwarg(call, "xordecode") is None)
    ctx.ob("R7", "AGREE", f, src(call), bool(fwd), "file and key options forwarded under their own names" if fwd else "xor_keys/all_xor_keys not forwarded unchanged to the block iterator", call)
    header = cfg.node(loop)
    it_edge = cfg.edge_node(loop, "iter")
    back = cfg.reaches(it_edge, header)
    ctx.ob("R6", "DOM", f, "first candidate wins", not back,
           "no path from the candidate loop body back to the loop header: the first candidate is returned" if not back else
           "the candidate loop can continue to a later candidate: " + " -> ".join(cfg.witness_path(it_edge, header)), loop)
    # the returned object is built from this candidate and carries its metadata
    tgt = loop.target
    blk, info = (dotted(tgt.elts[0]), dotted(tgt.elts[1])) if isinstance(tgt, ast.Tuple) and len(tgt.elts) == 2 else (None, None)
    rets = [r for r in ast.walk(loop) if isinstance(r, ast.Return)]
    for r in rets:
        o = origin(f.node, r.value) if r.value is not None else None
        name = dotted(r.value)
        built = [v for st, v in assignments_to(f.node, name) if any(st is x for x in ast.walk(loop))] if name else []
        b_ok = len(built) == 1 and isinstance(built[0], ast.Call) and dotted(built[0].func) == "cls" and built[0].args and dotted(built[0].args[0]) == blk
        meta = {}
        for s in ast.walk(loop):
            if isinstance(s, ast.Assign) and isinstance(s.targets[0], ast.Attribute) and dotted(s.targets[0].value) == name:
                meta[s.targets[0].attr] = s.value
        def from_info(v, key):
            return isinstance(v, ast.Subscript) and dotted(v.value) == info and is_const(v.slice, key)
        m_ok = from_info(meta.get("xorkey"), "xorkey") and from_info(meta.get("xorencoded"), "xorencoded")
        ctx.ob("R6", "AGREE", f, "return " + src(r.value), b_ok and m_ok,
               f"returned config is cls(<candidate block>)={b_ok}; xorkey/xorencoded copied from the candidate's extra_info={m_ok}", r)
    # R7: exits
    for r in cfg.return_stmts():
        name = dotted(r.value)
        defs = [v for st, v in assignments_to(f.node, name)] if name else []
        ok = bool(defs) and all(isinstance(v, ast.Call) and dotted(v.func) == "cls" for v in defs)
        ctx.ob("R7", "EXIT", f, "return " + src(r.value), ok, "returns an object constructed by cls(...)" if ok else "returns something that is not a constructed BeaconConfig", r)
    ctx.ob("R7", "EXIT", f, "falls off end", not cfg.falls_off_end(), "function cannot fall off its end (would return None)" if not cfg.falls_off_end() else "a path returns None implicitly", f.node)
    for r in cfg.raise_stmts():
        if r.exc is None:
            continue
        ctx.ob("R7", "EXIT", f, src(r), raise_class(r) == "ValueError", f"raises {raise_class(r)} (documented: ValueError)", r)
    last_raise = [r for r in cfg.raise_stmts() if raise_class(r) == "ValueError" and fv.enclosing(r, (ast.For, ast.While, ast.If, ast.Try)) is None]
    ctx.ob("R7", "EXIT", f, "final raise ValueError", bool(last_raise), "ends in an unconditional raise ValueError" if last_raise else "no unconditional `raise ValueError` at the end", f.node)
    for fq, wrap in (("beacon.BeaconConfig.from_path", "open"), ("beacon.BeaconConfig.from_bytes", "io.BytesIO")):
        g = ctx.repo.func(fq)
        calls = [c for c in fn_calls(g.node) if dotted(c.func) == "cls.from_file"]
        ok = False
        detail = "does not delegate to cls.from_file"
        if len(calls) == 1:
            c = calls[0]
            kw_ok = dotted(kwarg(c, "xor_keys")) == "xor_keys" and dotted(kwarg(c, "all_xor_keys")) == "all_xor_keys"
            a0 = c.args[0] if c.args else None
            src_ok = False
            if a0 is not None:
                o = origin(g.node, a0)
                if isinstance(o, ast.Call) and dotted(o.func) == wrap:
                    if wrap == "open":
                        mode = o.args[1] if len(o.args) > 1 else kwarg(o, "mode")
                        src_ok = dotted(o.args[0]) == params(g.node)[1] and is_const(mode, "rb")
                    else:
                        src_ok = o.args and dotted(o.args[0]) == params(g.node)[1]
                elif isinstance(a0, ast.Name):
                    # with open(path, "rb") as fobj
                    for st in statements(g.node):
                        if isinstance(st, ast.With):
                            for itm in st.items:
                                if itm.optional_vars is not None and dotted(itm.optional_vars) == a0.id:
                                    o = itm.context_expr
                                    if isinstance(o, ast.Call) and dotted(o.func) == "open":
                                        mode = o.args[1] if len(o.args) > 1 else kwarg(o, "mode")
                                        src_ok = dotted(o.args[0]) == params(g.node)[1] and is_const(mode, "rb")
            rets = [r for r in statements(g.node) if isinstance(r, ast.Return)]
            ret_ok = all(r.value is c for r in rets) and bool(rets)
            ok = kw_ok and src_ok and ret_ok
            detail = f"keywords forwarded={kw_ok}; source is {wrap}(<param>) in binary mode={src_ok}; result returned unchanged={ret_ok}"
        ctx.ob("R7", "AGREE", g, "cls.from_file(...)", ok, detail, g.node)


# ---------------------------------------------------------------------------- R8
def r8(ctx):
    try:
        from rules import c15
    except ImportError:
        return
    if hasattr(c15, "scanner_obligations"):
        c15.scanner_obligations(ctx, rule_prefix="R8")
