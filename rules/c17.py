"""C17 - Guardrails-protected configurations are recovered iff the checksum matches (structural part).

Every rule locates its subject by role (the value stored into `unmasked_beacon_config`, the expression compared with the
stored checksum, the stream read that feeds the `masked_beacon_config` field, the variable bound to `grouper`'s `n` ...)
and evaluates a semantic necessary condition on it: dominance / all-paths on the CFG, expressions compared after
`inline` (temporaries, flag variables and tuple unpacking are transparent), arguments through `bind_args`, sizes and
offsets as numbers / polynomials over the scan variable.  When the subject cannot be located any more the obligation is
`undecided`; a located subject that fails its condition is a violation.

Technique
---------
(numbers = ALLOWED devices of RULES_GUIDE.md "What counts as *static* here"; nothing of /repo is interpreted on data chosen
by the checker: no sample inputs, no enumeration of numeric inputs, no loop unrolling, no regex / parser runs)

R1  1 (stores into the attributes, resolved callees, constructor arguments through the class field list), 2 (branch-edge
    atoms in negation normal form, dominance of the checksum-equality edge, "every path from the store to a yield passes
    the edge or a reset to None", exactly-one-yield per cycle as CFG reachability avoiding the yields / the loop header),
    3 (stored value and compared value as terms after substituting single-definition temporaries, multi-definition result
    variables and constant tuple projections followed per definition; the equality `<stored> == payload_checksum(V) + 1`
    decided in polynomial normal form over the atoms `<g>.checksum` and `payload_checksum(V)`; unmasking as an xor chain
    (base, [keys]) compared structurally), 6 (the single-byte key constant).
    Lemmas: [xor-len], [xor-keys-commute].
R2  1 (constructions of BeaconConfig from `<candidate>.unmasked_beacon_config`; the *draw* of the candidate: the for loop
    or the `next(IT[, None])` assignment that binds it; resolved iterator), 2 (truthiness atom on an edge dominating the
    construction - or, for the result variable of a search, dominating the copy of the drawn candidate into it; "search
    goes on": no path from the draw to the return / raise exit avoiding the construction from that candidate, the next
    draw (loop header / the next(..) statement) and the edges on which the drawn name is the None default of the exhausted
    iterator; exception handlers are not followed), 3 (reaching definitions of the result name at the `guardrails` store;
    conditions of a filtering comprehension / `filter(lambda ..)` / `iter(..)` of one renamed to the drawn name - they
    hold in the loop body, resp. where the `next` result is known not to be the default), 5 (the finite set of spellings
    of "truthy": `x`, `bool(x)`, `x is not None`, `x != b""`, `len(x) > 0` ...; of "absent": `x is None`, `not x`).
R3  6 (GuardOption members and the marker table compared completely with the reference tables; the reference markers are
    the checker's own serialisation of (option, type, length) by the C definition *parsed* from the source; the marker
    table is the folded value of the module-level constant - a literal, or a table generated at import time from other
    constants and members of the parsed C enums, see "Constant tables" below; not foldable -> undecided), 1/3 (checksum
    argument of the constructor followed through copies to its decoding call; `utils.unpack` / `int.from_bytes`
    arguments through bind_args), 2 (the option test dominates the decoding), 5 (the option is compared with the enum
    member, its value or its name - vocabulary of the parsed enum).
    Settings loop ("admits one setting per GuardOption"): 1 (the parse of a GuardrailSetting by resolved callee, its
    innermost loop, the list the settings are appended to / a counter incremented by one), 2 (a branch edge lies on every
    path from one parse to the next; every path from a parse to that edge passes an increment of the count), 4 (interval
    on the count: after j parses the count is >= c0 + j, so an edge atom `count <= B` admits at most B - c0 + 1 parses;
    the atom is brought to `count op bound` in polynomial normal form; the loop body is looked at once), 6 (bound folded
    over module constants incl. `len` of a constant table; number of values of a constant `range` by closed form),
    5 (required number = size of the GuardOption vocabulary).  Lemmas: [linear-bound], [range-closed-form], [count-bound].
    Per-candidate values ("reported checksum / settings parsed anew for every candidate"): 1 (the `checksum` / `settings`
    arguments of the GuardrailMetadata constructions through the class field list; bindings and in-place changes -
    append / extend / subscript store / augmented assignment - of the locals they read), 2/3 (reaching definitions as CFG
    reachability: no path from one construction to the next avoids every re-binding of a local that is assigned or
    changed inside the scan cycle; `x += ..`, `x = x + ..`, `x.append(..)` carry the old value and are not re-bindings;
    plain copies are followed to their source; a for target counts as re-bound at the loop header).  Locals that the
    cycle never touches and parameters are the same for all candidates.
R4  6 (patch-size constants, marker table, integer expressions folded over module constants incl. `len` of a constant
    table element), 1 (stream operations on the file parameter, constructor arguments), 2 (which seek/read can be the last
    stream operation before a read = reachability avoiding the other operations; marker-test edge dominates the report;
    one increment on every cycle, none between the window seek and the report), 3 (marker value as xor chain of two
    slices of one read; offsets as polynomials over the scan variable, compared in normal form), 4 (conditions
    dominating the report as a half-line of the scan variable: linear inequality -> bound, compared with the first
    admissible offset; the scan variable's updates as "+1" in polynomial form - the loop body is looked at once).
    Lemmas: [xor-len], [xor-keys-commute], [reversal], [linear-bound].
    Chunked scan (the two halves are bound by `for .., a, b in G(fh, ..)`, G a generator of the module that yields slices of
    bulk-read chunks): 1 (resolved callee, its single yield, stream operations on its file parameter), 3 (terms of the
    yielded elements built in G with G's parameters bound to the call's arguments; slice bounds and the yielded offset as
    polynomials over the chunk start BASE and the position P - the chunk loop body is looked at once), 4 (interval on P:
    for a full chunk of N bytes P runs to Efull - 1, the chunk start advances by S; offsets with P < min(Efull, S) are
    visited in this chunk only, so c0 + min(Efull, S) - 1 + 2 * marker length <= N is required - "window inside the block
    read" - and Efull >= S - "every offset tested"), 6 (N, S, range arguments folded).  Lemmas: [slice-truncation],
    [full-chunk].  An inline chunked scan (no generator) is not modelled.
R5  1 (the variable bound to grouper's `n`, reads of the candidate stream, most_common calls), 3 (that variable followed to
    the for loop that binds it; the checksum's per-byte term with the accumulator symbolic - the loop body / generator
    element is analysed once - in polynomial normal form over the atoms BYTE and IMOD<k>), 6 (range arguments, read sizes,
    modulus, ranked count folded; first / last / number of values of the constant `range` by closed form, not by
    iterating it; a constant weight table compared completely with the arithmetic progression T[0]+j).
    Lemmas: [byte-mask], [progression-table], [mod-accumulate], [range-closed-form], [enumerate-index],
    assumption [default-buffer-size].
    'Any environmental key' (TAINT obligations): 1 (the counter = receiver of most_common; its counting sites: update(..),
    construction / sum of Counter(..), `counter[k] += ..`; the yields), 3 (the counted expression with single-definition
    temporaries substituted; an element is tainted when the iterable of its comprehension generator / for loop / filter(..)
    contains the grouper call or a tainted name), 2 (branch-edge atoms dominating the counting statement / the yield),
    5 (the finite set of forms of a condition that does *not* read the bytes of an element E: `len(E)`, `isinstance(E, ..)`,
    `E is None` / `None in E` / `E == b""`, the truthiness of E itself, `E in <local collection>`; every other mention of E in
    a filter condition reads its content).  A predicate passed to filter(..) by name -> undecided.  Lemma [key-is-a-gram].
R6  engine: effects.check_escape (1, 2, 4: escape analysis with interval facts, trusted base of C08) and
    loops.analyse_loop (2: every cycle of the loop passes a progress statement).  One length fact is added to the escape
    analysis (6): a module-level container constant that the function neither takes as parameter nor assigns has the length
    of its folded value (the engine itself reads literal tables and unfiltered comprehensions over them only).

R7  'raw or XorEncoded' in the Guardrails fallback of BeaconConfig.from_file: 1 (the call of the guardrails iterator, its
    stream argument through bind_args, calls resolved to xordecode.XorEncodedFile / .from_file = decoding attempts; the
    enclosing `try` stands for an attempt because the exceptional edge leaves from before the call), 3 (the stream
    argument followed flow-sensitively through reaching definitions to its leaves: the file parameter (raw) or an
    attempt's result (decoded)), 2 (no path entry -> <raw leaf becomes the stream> -> scan that avoids every attempt, on
    the CFG with the branch edges removed that are infeasible by flag propagation: a name in a test whose reaching
    definitions at that test are all constants of one truthiness; three-valued evaluation of the test).  Violated when the
    raw file object reaches the scan without a feasible attempt, or the attempt is skipped on a test that does not look at
    the payload (no call in the inlined test); a test with a call that selects the attempt -> undecided.

Constant tables (device 6, class _ModEnv; used by R3, R4, R5, R6 wherever a module constant is read)
    A module-level constant is folded from the module-level statements that bind it, in statement order (an expression of
    statement i sees the bindings before i; functions see the last): literals and arithmetic as in the engine's
    const_eval, plus - on constants of the analysed code only, never on data chosen by the checker -
    members of the C enums of the *parsed* cstruct definition (`E.M`, `E["M"]`, `E(v)`, `.value`, `.name`, iteration over
    `E`: 5, finite vocabulary from the analysed code), comprehensions over constant iterables (the finite constant table
    they denote: folding of a module-level constant table, not a loop over checker-chosen input), conditional / boolean /
    comparison expressions on constants, `zip` / `enumerate` / `range` / `sorted` / `dict` views of constants, and the
    standard-library byte serialisers `struct.pack`, `struct.Struct(..).pack`, `int.to_bytes`, `bytes(..)`,
    `b"".join(..)` applied to constants (CPython's own implementation of that library function, exactly as `len` and
    slicing are folded by const_eval).  `X += E`, `X.append(E)`, `X.extend(E)` at module level - also as the single
    statement of a `for T in S` loop over a constant S - are read as the rebinding they are equal to
    ([append-is-concat], [append-loop-is-comprehension]).  Not folded (-> the consuming obligation is undecided): tables
    built by package helpers (their bodies would have to be interpreted), containers bound or mutated in nested blocks /
    by other methods / through subscripts, generator objects, anything over the size cap.

Lemmas (each used as a rewrite on terms, never checked by trying values)
[xor-len]            len(utils.xor(data, key)) == len(data): the helper combines each byte of `data` with the cycled `key`
                     (model of the package helper; its first operand is the base, the second the key).
[xor-keys-commute]   xor(xor(b, k1), k2) == xor(xor(b, k2), k1): bytewise ^ is associative and commutative and both keys
                     are cycled over len(b); keys do not commute with the base (lengths differ).
[reversal]           X[::-1], bytes(X[::-1]) and bytes(reversed(X)) all denote the byte-reversal of X.
[linear-bound]       for a > 0: a*x + c < 0 <=> x < -c/a (same for <=, >, >=); multiplying by -1 mirrors the operator.
[byte-mask]          for an element b of a bytes object 0 <= b < 256, hence b & 0xFF == b and int(b) == b.
[progression-table]  if T is a constant tuple with T[j] == T[0] + j for all j, then T[i % len(T)] == i % len(T) + T[0],
                     because 0 <= i % len(T) < len(T) for len(T) >= 1.
[mod-accumulate]     ((a % M) + b) % M == (a + b) % M for M > 0: reducing in every step or once at the end gives the same sum.
[range-closed-form]  range(a, b, s) with s > 0 has max(0, ceil((b - a) / s)) values, first a, last a + (len - 1) * s
                     (CPython's own O(1) range arithmetic is used for this).
[enumerate-index]    enumerate(data) / enumerate(data, 0) yields (i, data[i]) for i = 0 .. len(data) - 1.
[count-bound]        a count that starts at c0, is incremented at least once between a parse and the test edge e and never
                     decreased is >= c0 + j at e after j parses; if `count <= B` holds on e and e lies between any two parses,
                     parse j+1 requires c0 + j <= B.  `count != K` (K >= c0 an integer) equals `count < K` when at most one
                     increment lies between two passes of e (the count cannot step over K).
[slice-truncation]   X[lo:hi] of a bytes-like X with hi > len(X) has fewer than hi - lo bytes (Python slicing never raises); xor of a
                     marker-long half with a shorter one is not a member of the table of marker-long strings.
[full-chunk]         stream.read(N) returns fewer than N bytes only at the end of the data; for every chunk that is followed by more
                     data len(chunk) == N, so expressions over len(chunk) are evaluated with that value (min / max / + / - folded).
[default-buffer-size] io.DEFAULT_BUFFER_SIZE == 8192 (CPython constant; named assumption).
[key-is-a-gram]      in the zero padding of the patch area the guarded data (config xor cycled key) is the cycled key itself, so the
                     environmental key is one of the n-grams cut there for n == len(key); a condition on the bytes of an n-gram
                     that decides whether it is counted / yielded therefore excludes every key that fails the condition.
[append-is-concat]   for a list X: after `X.append(E)` X equals old X + [E]; after `X.extend(E)` / `X += E` it equals old X + [*E]
                     (bytes: X + E).  Only used for module-level statements; aliases are not followed (a second name for
                     the table is a different constant).
[append-loop-is-comprehension] `for T in S: X.append(E)` leaves X == old X + [E for T in S] when neither S, T nor E mention X
                     and the loop has no other statement and no else.
"""

from __future__ import annotations

import ast
import copy

from csverif import cdefs as cdefs_mod, effects, loops, tables
from csverif.absint import SymPoly, sympoly
from csverif.astutil import (
    assignments_to, bind_args, conjuncts, const_eval, dotted, fn_calls, nnf, NotConst, params, src,
    statements, strip_cast,
)
from csverif.cfg import ENTRY, EXIT, RAISE
from csverif.q import FuncView, inline, origin

CHECKSUM_MODULUS = 99999999
BEACON_XOR_KEY = b"\x2e"
BEACON_AREA, GUARD_AREA = 6144, 2048
KEY_LENGTHS = (2, 256)


def _c(node, env=None):
    if node is None:
        return None
    fold = getattr(env, "fold", None)
    if fold is not None:
        return fold(node)
    try:
        return const_eval(node, env)
    except (NotConst, TypeError, KeyError):
        return None


# ============================================================================== folding of generated constant tables
class _Member(int):
    """A member of a C enum of the parsed definitions: its integer value, with `.name` / `.value` of the enum protocol
    (dissect.cstruct enums are IntEnum-like: a member packs / compares / indexes as its value)."""

    def __new__(cls, value, enum, name):
        m = int.__new__(cls, value)
        m.enum, m.mname = enum, name
        return m

    def __repr__(self):
        return f"{self.enum}.{self.mname}"


def _no_names(name):
    raise KeyError(name)


_MUTATORS = ("append", "extend", "insert", "remove", "pop", "clear", "sort", "reverse", "add", "discard", "update", "setdefault", "popitem")
_FOLD_LIMIT = 1 << 14


class _ModEnv:
    """Constant environment of a module (device 6: constant folding of constant expressions and of module-level constant
    tables) that also folds tables *generated* at import time from other constants.  On top of csverif.astutil.const_eval
    it folds, on constants only and never on data chosen by the checker:

      * members of the C enums of the module's parsed cstruct definitions (`E.M`, `E["M"]`, `E(v)`, `.value`, `.name`,
        iteration over `E`) - an abstract member is its integer value (_Member);
      * comprehensions / generator arguments over constant iterables (tuple targets, constant filters), conditional
        expressions, comparisons and boolean operators on constants, `zip` / `enumerate` / `range` / `sorted` / `reversed`
        / `dict` views of constants;
      * the byte serialisers of the standard library on constant arguments: `struct.pack(fmt, ..)`, `struct.Struct(fmt)
        .pack(..)`, `int.to_bytes`, `bytes(..)`, `b"".join(..)` - evaluated with CPython's own implementation of exactly
        that library function (like `len` / slicing in const_eval), not with code of /repo.

    A container constant that is rebound or mutated by other module-level statements is not a constant table (KeyError ->
    the consumer is undecided); so is anything built by /repo helpers (they would have to be interpreted)."""

    def __init__(self, ctx, mod):
        self.mod = mod
        try:
            self.cds = ctx.cdefs(mod.name)
        except Exception:  # definitions the C parser cannot resolve: no enum vocabulary, everything else still folds
            self.cds = {}
        self._memo, self._busy, self._steps = {}, set(), 0
        self.imports = {}
        for st in ast.walk(mod.tree):
            if isinstance(st, ast.Import):
                for a in st.names:
                    self.imports[a.asname or a.name.split(".")[0]] = a.name if a.asname else a.name.split(".")[0]
            elif isinstance(st, ast.ImportFrom) and st.module and not st.level:
                for a in st.names:
                    self.imports[a.asname or a.name] = f"{st.module}.{a.name}"
        # module-level bindings in statement order: name -> [(statement index, expression)]; an expression of statement i
        # sees the bindings of the statements before i, code in functions sees the last ones
        self.binds, accounted = {}, set()
        for i, st in enumerate(mod.tree.body):
            rb = self._rebinding(st)
            if rb is not None:
                self.binds.setdefault(rb[0], []).append((i, rb[1]))
                accounted.add(id(st))
        self._end = len(mod.tree.body)
        self._pos = self._end
        self._unstable = self._unstable_names(accounted)

    # ---- module-level statements that (re)bind a constant, as expressions over the previous binding
    @staticmethod
    def _grow(st, name=None):
        """(X, kind, E) for the statements `X.append(E)` / `X.extend(E)` / `X += E`"""
        if isinstance(st, ast.Expr) and isinstance(st.value, ast.Call) and isinstance(st.value.func, ast.Attribute) and st.value.func.attr in ("append", "extend") \
                and isinstance(st.value.func.value, ast.Name) and len(st.value.args) == 1 and not st.value.keywords and not isinstance(st.value.args[0], ast.Starred):
            return st.value.func.value.id, st.value.func.attr, st.value.args[0]
        if isinstance(st, ast.AugAssign) and isinstance(st.target, ast.Name) and isinstance(st.op, ast.Add):
            return st.target.id, "extend", st.value
        return None

    def _rebinding(self, st):
        """(name, expression of the new value) for a module-level statement that binds `name`.  Rewrites, each an identity
        of the list / bytes operations: X.append(E) == (X := X + [E]); X.extend(E) and X += E == (X := X + [*E]) for a list
        X (X + E for bytes); `for T in S: X.append(E)` == (X := X + [E for T in S]) when S and E do not mention X."""
        if isinstance(st, ast.Assign) and len(st.targets) == 1 and isinstance(st.targets[0], ast.Name):
            return st.targets[0].id, st.value
        if isinstance(st, ast.AnnAssign) and isinstance(st.target, ast.Name) and st.value is not None:
            return st.target.id, st.value
        L = ast.Load()
        if isinstance(st, ast.AugAssign) and isinstance(st.target, ast.Name):
            return st.target.id, ast.BinOp(left=ast.Name(id=st.target.id, ctx=L), op=st.op, right=st.value)
        g = self._grow(st)
        if g is not None:
            x, kind, e = g
            more = ast.List(elts=[e] if kind == "append" else [ast.Starred(value=e, ctx=L)], ctx=L)
            return x, ast.BinOp(left=ast.Name(id=x, ctx=L), op=ast.Add(), right=more)
        if isinstance(st, ast.For) and not st.orelse and len(st.body) == 1:
            g = self._grow(st.body[0])
            if g is not None:
                x, kind, e = g
                if any(isinstance(n, ast.Name) and n.id == x for part in (st.iter, st.target, e) for n in ast.walk(part)):
                    return None
                gens = [ast.comprehension(target=st.target, iter=st.iter, ifs=[], is_async=0)]
                elt = e
                if kind == "extend":
                    elt = ast.Name(id="<element>", ctx=L)
                    gens.append(ast.comprehension(target=ast.Name(id="<element>", ctx=ast.Store()), iter=e, ifs=[], is_async=0))
                return x, ast.BinOp(left=ast.Name(id=x, ctx=L), op=ast.Add(), right=ast.ListComp(elt=elt, generators=gens))
        return None

    # ---- environment protocol of const_eval
    def __call__(self, name):
        bs = self.binds.get(name)
        k = max((j for j, (i, _e) in enumerate(bs) if i < self._pos), default=None) if bs else None
        if k is None:
            raise KeyError(name)
        if (name, k) in self._memo:
            return self._memo[name, k]
        if (name, k) in self._busy:
            raise KeyError(name)
        if not self._busy:
            self._steps = 0
        self._busy.add((name, k))
        pos, self._pos = self._pos, bs[k][0]
        try:
            v = self._ev(bs[k][1], {})
        except NotConst:
            raise KeyError(name)
        finally:
            self._pos = pos
            self._busy.discard((name, k))
        if isinstance(v, (list, dict, set, bytearray)) and name in self._unstable:
            raise KeyError(name)
        self._memo[name, k] = v
        return v

    def fold(self, node):
        """value of a constant expression of the module (as seen by code in functions), None if it is not one"""
        try:
            if not self._busy:
                self._steps = 0
            return self._ev(node, {})
        except (NotConst, KeyError):
            return None

    def _unstable_names(self, accounted):
        """module-level names bound or mutated by module-level statements other than the rebinding forms above (in nested
        blocks, loops, by other methods, through subscripts / attributes): their value is not followed"""
        out = set()

        def walk(n):
            for ch in ast.iter_child_nodes(n):
                if isinstance(ch, (ast.FunctionDef, ast.AsyncFunctionDef, ast.Lambda)) or id(ch) in accounted:
                    continue
                if isinstance(ch, (ast.ListComp, ast.SetComp, ast.DictComp, ast.GeneratorExp)):
                    continue  # own scope
                if isinstance(ch, ast.Name) and isinstance(ch.ctx, (ast.Store, ast.Del)):
                    out.add(ch.id)
                if isinstance(ch, (ast.Subscript, ast.Attribute)) and isinstance(ch.ctx, (ast.Store, ast.Del)) and isinstance(ch.value, ast.Name):
                    out.add(ch.value.id)
                if isinstance(ch, ast.Call) and isinstance(ch.func, ast.Attribute) and ch.func.attr in _MUTATORS and isinstance(ch.func.value, ast.Name):
                    out.add(ch.func.value.id)
                if not isinstance(ch, ast.ClassDef):
                    walk(ch)

        walk(self.mod.tree)
        return out

    # ---- the vocabulary of the parsed C enums
    def _enum_of(self, node):
        """(python-visible enum name, [(member, value)]) if `node` denotes an enum type of the parsed definitions"""
        once = lambda n: len(self.binds.get(n, ())) == 1 and n not in self._unstable
        if isinstance(node, ast.Name) and once(node.id):
            node = self.binds[node.id][0][1]
        if isinstance(node, ast.Attribute) and isinstance(node.value, ast.Name) and node.value.id in self.cds and once(node.value.id):
            cd = self.cds[node.value.id]
            if node.attr in cd.enums:
                return node.attr, list(cd.enums[node.attr].members)
        return None

    @staticmethod
    def _member(en, name=None, value=None):
        ename, members = en
        for n, v in members:
            if (name is not None and n == name) or (name is None and v == value):
                return _Member(v, ename, n)
        raise NotConst(f"{ename}: no member {name if name is not None else value}")

    # ---- evaluation
    def _tick(self, n=1):
        self._steps += n
        if self._steps > _FOLD_LIMIT * 16:
            raise NotConst("table too large to fold")

    def _ev(self, node, loc):
        try:
            return self._ev1(node, loc)
        except (NotConst, KeyError) as e:
            raise NotConst(str(e))
        except RecursionError:
            raise
        except Exception as e:  # TypeError / ValueError / struct.error / IndexError ... of the folded operation
            raise NotConst(f"{src(node)[:60]}: {e}")

    def _seq(self, node, loc):
        """the values a constant iterable yields, in order"""
        if isinstance(node, ast.GeneratorExp):
            return self._comp(node, loc)
        en = self._enum_of(node) if not (isinstance(node, ast.Name) and node.id in loc) else None
        if en is not None:
            seen, out = set(), []
            for n, v in en[1]:  # aliases (repeated values) are not iterated, like enum.Enum
                if v not in seen:
                    seen.add(v)
                    out.append(_Member(v, en[0], n))
            return out
        v = self._ev(node, loc)
        if isinstance(v, (list, tuple, bytes, bytearray, str, range)):
            if len(v) > _FOLD_LIMIT:
                raise NotConst("iterable too large to fold")
            return list(v)
        if isinstance(v, dict):
            return list(v)
        if isinstance(v, (set, frozenset)):
            raise NotConst("iteration order of a set")
        raise NotConst(f"not iterable: {src(node)[:40]}")

    def _bind(self, target, value, loc):
        if isinstance(target, ast.Name):
            loc[target.id] = value
        elif isinstance(target, (ast.Tuple, ast.List)) and not any(isinstance(t, ast.Starred) for t in target.elts):
            vals = list(value) if isinstance(value, (list, tuple, bytes, str)) else None
            if vals is None or len(vals) != len(target.elts):
                raise NotConst("unpacking")
            for t, v in zip(target.elts, vals):
                self._bind(t, v, loc)
        else:
            raise NotConst("comprehension target")

    def _comp(self, node, loc):
        """elements (key/value pairs for a dict comprehension) of a comprehension over constant iterables"""
        out = []

        def rec(i, loc):
            if i == len(node.generators):
                self._tick()
                out.append((self._ev(node.key, loc), self._ev(node.value, loc)) if isinstance(node, ast.DictComp) else self._ev(node.elt, loc))
                return
            g = node.generators[i]
            if g.is_async:
                raise NotConst("async comprehension")
            for v in self._seq(g.iter, loc):
                self._tick()
                inner = dict(loc)
                self._bind(g.target, v, inner)
                if all(self._ev(c, inner) for c in g.ifs):
                    rec(i + 1, inner)

        rec(0, loc)
        return out

    def _args(self, call, loc):
        out = []
        for a in call.args:
            if isinstance(a, ast.Starred):
                out.extend(self._seq(a.value, loc))
            else:
                out.append(self._ev(a, loc))
        kw = {}
        for k in call.keywords:
            if k.arg is None:
                raise NotConst("**kwargs")
            kw[k.arg] = self._ev(k.value, loc)
        return out, kw

    def _callee(self, func, loc):
        """dotted name of a called library function with import aliases resolved (`from struct import pack as p` ->
        struct.pack); None if the first component is a local / module-level binding"""
        d = dotted(func)
        if d is None:
            return None
        head, _, rest = d.partition(".")
        if head in loc or head in self.binds or head in self.mod.funcs or head in self.mod.classes:
            return None
        if head in self.imports:
            return self.imports[head] + ("." + rest if rest else "")
        return d

    _CMP = {
        ast.Eq: lambda a, b: a == b, ast.NotEq: lambda a, b: a != b, ast.Lt: lambda a, b: a < b, ast.LtE: lambda a, b: a <= b,
        ast.Gt: lambda a, b: a > b, ast.GtE: lambda a, b: a >= b, ast.In: lambda a, b: a in b, ast.NotIn: lambda a, b: a not in b,
    }

    def _ev1(self, node, loc):
        import struct as _struct

        self._tick()
        if isinstance(node, ast.Constant):
            return node.value
        if isinstance(node, ast.Name):
            if node.id in loc:
                return loc[node.id]
            return self(node.id)
        if isinstance(node, (ast.ListComp, ast.SetComp, ast.DictComp)):
            items = self._comp(node, loc)
            return list(items) if isinstance(node, ast.ListComp) else set(items) if isinstance(node, ast.SetComp) else dict(items)
        if isinstance(node, ast.GeneratorExp):
            raise NotConst("a generator object is not a constant table")
        if isinstance(node, ast.IfExp):
            return self._ev(node.body if self._ev(node.test, loc) else node.orelse, loc)
        if isinstance(node, ast.BoolOp):
            v = None
            for x in node.values:
                v = self._ev(x, loc)
                if bool(v) != isinstance(node.op, ast.And):
                    return v
            return v
        if isinstance(node, ast.UnaryOp) and isinstance(node.op, ast.Not):
            return not self._ev(node.operand, loc)
        if isinstance(node, ast.Compare):
            left = self._ev(node.left, loc)
            for op, r in zip(node.ops, node.comparators):
                right = self._ev(r, loc)
                if isinstance(op, (ast.Is, ast.IsNot)):
                    if left is not None and right is not None and not (isinstance(left, _Member) and isinstance(right, _Member)):
                        raise NotConst("identity of constants")
                    res = (left == right and type(left) is type(right)) == isinstance(op, ast.Is)
                elif type(op) in self._CMP:
                    res = self._CMP[type(op)](left, right)
                else:
                    raise NotConst("comparison")
                if not res:
                    return False
                left = right
            return True
        if isinstance(node, ast.Attribute):
            en = self._enum_of(node.value) if not (isinstance(node.value, ast.Name) and node.value.id in loc) else None
            if en is not None:
                return self._member(en, name=node.attr)
            base = self._ev(node.value, loc)
            if isinstance(base, _Member) and node.attr == "value":
                return int(base)
            if isinstance(base, _Member) and node.attr == "name":
                return base.mname
            raise NotConst(src(node)[:60])
        if isinstance(node, ast.Subscript) and not isinstance(node.slice, ast.Slice):
            en = self._enum_of(node.value) if not (isinstance(node.value, ast.Name) and node.value.id in loc) else None
            if en is not None:
                k = self._ev(node.slice, loc)
                if not isinstance(k, str):
                    raise NotConst("enum subscript")
                return self._member(en, name=k)
        if isinstance(node, ast.Call):
            en = self._enum_of(node.func) if not (isinstance(node.func, ast.Name) and node.func.id in loc) else None
            if en is not None:
                args, kw = self._args(node, loc)
                if len(args) != 1 or kw or not isinstance(args[0], int):
                    raise NotConst("enum call")
                return self._member(en, value=int(args[0]))
            fn = node.func
            # methods on folded receivers
            if isinstance(fn, ast.Attribute):
                if fn.attr == "pack" and isinstance(fn.value, ast.Call) and self._callee(fn.value.func, loc) == "struct.Struct":
                    fa, fk = self._args(fn.value, loc)
                    args, kw = self._args(node, loc)
                    if len(fa) == 1 and not fk and not kw and isinstance(fa[0], (str, bytes)):
                        return _struct.pack(fa[0], *args)
                    raise NotConst("struct.Struct")
                if fn.attr in ("to_bytes", "join", "items", "keys", "values", "get") and self._callee(fn, loc) not in ("int.to_bytes",):
                    recv = self._ev(fn.value, loc)
                    if fn.attr == "join":
                        if isinstance(recv, (bytes, str)) and len(node.args) == 1 and not node.keywords and not isinstance(node.args[0], ast.Starred):
                            return recv.join(self._seq(node.args[0], loc))
                        raise NotConst(src(node)[:60])
                    args, kw = self._args(node, loc)
                    if fn.attr == "to_bytes" and isinstance(recv, int) and not isinstance(recv, bool):
                        return self._to_bytes(int(recv), args, kw)
                    if fn.attr in ("items", "keys", "values") and isinstance(recv, dict) and not args and not kw:
                        return [tuple(x) if fn.attr == "items" else x for x in getattr(recv, fn.attr)()]
                    if fn.attr == "get" and isinstance(recv, dict) and 1 <= len(args) <= 2 and not kw:
                        return recv.get(*args)
                    raise NotConst(src(node)[:60])
            name = self._callee(fn, loc)
            if name is None:
                raise NotConst(f"call of a module-level name: {src(node)[:60]}")
            if name == "struct.pack":
                args, kw = self._args(node, loc)
                if args and not kw and isinstance(args[0], (str, bytes)):
                    return _struct.pack(args[0], *args[1:])
                raise NotConst("struct.pack")
            if name == "struct.calcsize":
                args, kw = self._args(node, loc)
                if len(args) == 1 and not kw and isinstance(args[0], (str, bytes)):
                    return _struct.calcsize(args[0])
                raise NotConst("struct.calcsize")
            if name == "int.to_bytes":
                args, kw = self._args(node, loc)
                if args and isinstance(args[0], int) and not isinstance(args[0], bool):
                    return self._to_bytes(int(args[0]), args[1:], kw)
                raise NotConst("int.to_bytes")
            if name in ("bytes", "bytearray", "tuple", "list", "set", "frozenset", "sorted", "reversed", "enumerate", "zip", "dict", "sum", "min", "max") and not any(k.arg is None for k in node.keywords):
                kw = {k.arg: self._ev(k.value, loc) for k in node.keywords}
                seqs = [self._seq(a, loc) for a in node.args] if name == "zip" or len(node.args) == 1 else None
                if name in ("bytes", "bytearray") and not kw:
                    if not node.args:
                        return b""
                    if seqs is not None and all(isinstance(x, int) for x in seqs[0]):
                        return bytes(seqs[0])  # a bytearray constant is compared by value like bytes
                elif name in ("tuple", "list", "set", "frozenset") and not kw:
                    if not node.args:
                        return {"tuple": tuple, "list": list, "set": set, "frozenset": frozenset}[name]()
                    if seqs is not None:
                        return {"tuple": tuple, "list": list, "set": set, "frozenset": frozenset}[name](seqs[0])
                elif name == "sorted" and seqs is not None and set(kw) <= {"reverse"}:
                    return sorted(seqs[0], reverse=bool(kw.get("reverse", False)))
                elif name == "reversed" and seqs is not None and not kw:
                    return list(reversed(seqs[0]))
                elif name == "enumerate" and seqs is not None and set(kw) <= {"start"}:
                    return [tuple(p) for p in enumerate(seqs[0], int(kw.get("start", 0)))]
                elif name == "enumerate" and len(node.args) == 2 and not kw:
                    return [tuple(p) for p in enumerate(self._seq(node.args[0], loc), int(self._ev(node.args[1], loc)))]
                elif name == "zip" and seqs is not None and not kw:
                    return [tuple(p) for p in zip(*seqs)]
                elif name == "dict" and not node.args:
                    return dict(kw)
                elif name == "dict" and seqs is not None:
                    v = self._ev(node.args[0], loc) if not isinstance(node.args[0], ast.GeneratorExp) else None
                    d = dict(v) if isinstance(v, dict) else dict(seqs[0])
                    d.update(kw)
                    return d
                elif name in ("sum", "min", "max") and seqs is not None and not kw and seqs[0] and all(isinstance(x, int) for x in seqs[0]):
                    return {"sum": sum, "min": min, "max": max}[name](seqs[0])
                raise NotConst(src(node)[:60])
            if name == "int" and len(node.args) == 1 and not node.keywords:
                v = self._ev(node.args[0], loc)
                if isinstance(v, int):
                    return int(v)
                raise NotConst("int(..)")
            if name == "range" and 1 <= len(node.args) <= 3 and not node.keywords:
                args, _kw = self._args(node, loc)
                if all(isinstance(a, int) for a in args):
                    r = range(*[int(a) for a in args])
                    if len(r) > _FOLD_LIMIT:  # closed form of CPython's range, nothing is iterated here
                        raise NotConst("range too large to fold")
                    return r
                raise NotConst("range(..)")
            if name in ("len", "bytes.fromhex") and len(node.args) == 1 and not node.keywords:
                v = self._seq(node.args[0], loc) if name == "len" and isinstance(node.args[0], ast.GeneratorExp) else self._ev(node.args[0], loc)
                return const_eval(ast.Call(func=node.func, args=[ast.Constant(value=v)], keywords=[]), None)
            raise NotConst(f"call: {src(node)[:60]}")
        # everything else (containers, arithmetic, subscripts / slices): the engine's folding on the folded operands
        if isinstance(node, (ast.List, ast.Tuple, ast.Set)):
            vals = []
            for e in node.elts:
                if isinstance(e, ast.Starred):
                    vals.extend(self._seq(e.value, loc))
                else:
                    vals.append(self._ev(e, loc))
            return list(vals) if isinstance(node, ast.List) else tuple(vals) if isinstance(node, ast.Tuple) else set(vals)
        if isinstance(node, ast.Dict):
            out = {}
            for k, v in zip(node.keys, node.values):
                if k is None:
                    d = self._ev(v, loc)
                    if not isinstance(d, dict):
                        raise NotConst("** of a non-dict")
                    out.update(d)
                else:
                    out[self._ev(k, loc)] = self._ev(v, loc)
            return out
        K = lambda x: ast.Constant(value=self._ev(x, loc)) if x is not None else None
        if isinstance(node, ast.UnaryOp):
            return const_eval(ast.UnaryOp(op=node.op, operand=K(node.operand)), None)
        if isinstance(node, ast.BinOp):
            return const_eval(ast.BinOp(left=K(node.left), op=node.op, right=K(node.right)), None)
        if isinstance(node, ast.Subscript):
            sl = node.slice
            sl = ast.Slice(lower=K(sl.lower), upper=K(sl.upper), step=K(sl.step)) if isinstance(sl, ast.Slice) else K(sl)
            return const_eval(ast.Subscript(value=K(node.value), slice=sl, ctx=ast.Load()), _no_names)
        raise NotConst(src(node)[:60])

    @staticmethod
    def _to_bytes(v, args, kw):
        names = ("length", "byteorder")
        a = dict(zip(names, args))
        if len(args) > 2 or set(a) & set(kw) or not set(kw) <= {"length", "byteorder", "signed"}:
            raise NotConst("int.to_bytes arguments")
        a.update(kw)
        if not isinstance(a.get("length"), int) or a.get("byteorder") not in ("big", "little") or a["length"] > _FOLD_LIMIT:
            raise NotConst("int.to_bytes: explicit length and byteorder required")
        return v.to_bytes(int(a["length"]), a["byteorder"], signed=bool(a.get("signed", False)))


def _menv(ctx, mod):
    """the (cached) folding environment of a module"""
    cache = ctx.__dict__.setdefault("_c17_cache", {})
    key = ("_c17_menv", mod.name)
    if key not in cache:
        cache[key] = _ModEnv(ctx, mod)
    return cache[key]


def run(ctx):
    rep = ctx.rep
    rep.explanation = (
        "Static analysis of guardrails.py and the fallback in BeaconConfig.from_file: every non-None store into "
        "unmasked_beacon_config / payload_xor_key is covered by the checksum-equality edge (dominance, or all paths to a "
        "yield pass it) and stores the very value whose checksum was compared and the key it was unmasked with; every "
        "guard configuration is yielded exactly once; from_file builds a configuration from a guardrail candidate only "
        "under a truthy unmasked config, draws its candidates (for loop or next(..)) from the validating iterator and goes on "
        "with the next candidate after a metadata-only one (no path from the draw to return / raise except through the "
        "construction, the next draw or the exhausted iterator); the marker table (a literal, or generated at import time from constants / enum "
        "members and folded as a module-level constant) equals the serialisation of (option, type, "
        "length) from C_GUARDRAILS_DEF; nothing limits the settings parsed per guard configuration below one per GuardOption "
        "member (interval on the list length / counter tested between two parses); geometry of the scan (window, offsets, bulk reads as numbers / polynomials over the scan "
        "variable) and the unmasking expressions as xor chains; key-length range and checksum formula as a polynomial; no filter condition or branch between grouper's n-grams and the counter / the yield reads the bytes of an n-gram "
        "(any key is admissible); the checksum and the settings handed to a GuardrailMetadata are re-bound on every path from one construction to the next; "
        "escape set and loop termination of the scan.  When the marker windows are cut out of bulk-read chunks by a generator of the module: "
        "every window of an offset that is visited in one chunk only lies inside the bytes read for that chunk (look-ahead >= 2 * marker length - 1), and the "
        "positions tested per chunk cover the stride.  Raw or XorEncoded: the raw file object becomes the stream of the guardrails fallback in from_file only "
        "after a feasible attempt to open its XorEncodedFile view (CFG paths after flag propagation)."
    )
    rep.not_decided = ["that recovery succeeds for every key/option combination (n-gram statistics)", "checksum collisions",
                       "n-grams that reach the counter through a predicate passed by name to filter(..) / a counting statement that cannot be located (undecided); per-candidate freshness of constructor arguments other than checksum / settings (offsets and blocks: R4)",
                       "limits on the number of parsed settings that are not a linear bound on a list length / counter (undecided when one lies between two parses)",
                       "exhaustiveness of a search whose constructed candidate is a result variable rather than the drawn name (undecided)",
                       "a chunked marker scan written inline (not as a generator helper), or whose chunk size / stride / positions are not constants: window obligations undecided; termination of a generator helper's loop",
                       "a decoding attempt in from_file that is selected by a predicate on the payload (a call in the test): undecided; that XorEncodedFile itself decodes correctly (C01)",
                       "a marker table that is not a foldable module-level constant (serialised by package helpers, bound in nested blocks, mutated through methods other than append/extend): table / marker-length obligations undecided"]
    rep.trusted_base = [
        "CPython ast", "networkx dominators", "C-definition parser", "escape-analysis trusted base (C08)",
        "polynomial normal form (csverif.absint.SymPoly)",
        "model of utils.xor: len(xor(data, key)) == len(data), key cycled; hence xor(xor(b, k1), k2) == xor(xor(b, k2), k1)",
        "lemma: X[::-1], bytes(X[::-1]), bytes(reversed(X)) are the byte-reversal of X",
        "lemma: a*x + c < 0 <=> x < -c/a for a > 0 (mirrored operator for a < 0)",
        "lemma: b & 0xFF == b and int(b) == b for an element b of a bytes object (0 <= b < 256)",
        "lemma: T[i % len(T)] == i % len(T) + T[0] for a constant tuple with T[j] == T[0] + j",
        "lemma: ((a % M) + b) % M == (a + b) % M for M > 0 (reduce per step == reduce at the end)",
        "lemma: enumerate(data[, 0]) yields (i, data[i]); first/last/length of a constant range by closed form",
        "lemma: a never-decreased count incremented after every parse is >= c0 + j after j parses; `count <= B` between two parses admits B - c0 + 1 parses",
        "semantics of next(IT, None) / filtering comprehension / filter(lambda): first element of IT satisfying the filter, None when exhausted",
        "assumption: io.DEFAULT_BUFFER_SIZE == 8192",
        "lemma: inside the zero padding of the patch area the guarded data is the cycled environmental key, so the key is one of the n-grams; the listed forms (len, isinstance, None tests, truthiness, membership in a local collection) do not read an element's bytes",
        "a local is carried from one report to the next unless re-bound on every CFG path between them (augmented assignment / self-referential assignment / in-place mutation are not re-bindings)",
        "lemma: a slice beyond the end of a bytes object is truncated, and read(N) is short only at the end of the data (chunk length == N whenever more data follows)",
        "flag propagation: a branch edge is infeasible when every definition of the tested name that reaches the test is a constant of the other truthiness; the exceptional edge of a try body leaves from before the raising statement",
        "constant folding of module-level tables (_ModEnv): CPython's struct.pack / int.to_bytes / bytes / join / range on constants of the analysed code; dissect.cstruct enum members behave as their integer value (IntEnum-like: .value, .name, E[name], E(value), iteration in definition order without aliases)",
        "lemma: module-level X.append(E) / X.extend(E) / X += E / `for T in S: X.append(E)` equal the rebinding X = X + [E] / X + [*E] / X + [E for T in S]; module-level tables are not mutated from function bodies",
    ]
    mod = ctx.repo.module("guardrails")
    env = _menv(ctx, mod)
    r1(ctx)
    r2(ctx)
    r3(ctx, mod, env)
    r4(ctx, mod, env)
    r5(ctx)
    r6(ctx)
    r7(ctx)


# ====================================================================================================== generic helpers
# (candidates for hoisting into the engine)
def _fq(ctx, f, call):
    """Fully qualified name of the package function / class / external a call resolves to (partials -> target)."""
    if not isinstance(call, ast.Call):
        return None
    cal = ctx.rs.resolve_call(f, call)
    if cal.kind == "func" and cal.func is not None:
        return cal.func.fq
    return cal.fq


def _bound(ctx, f, call):
    """callee parameter -> argument expression of a call to a package function, `functools.partial` bindings of the
    resolved symbol included (explicit arguments win over the partial's, the partial's over defaults)."""
    cal = ctx.rs.resolve_call(f, call)
    if cal.kind != "func" or cal.func is None:
        return None
    fn = cal.func.node
    b = bind_args(call, fn, skip_self=bool(cal.recv_type))
    pos = [p for p in params(fn)][1 if cal.recv_type else 0:]
    given = {k.arg for k in call.keywords if k.arg} | set(pos[: len(call.args)])
    for k, v in (cal.bound or {}).items():
        if k not in given:
            b[k] = v
    return b


_IMPURE = {}
_CONSUMING = ("read", "read1", "readline", "readinto", "peek", "recv", "seek", "pop", "popleft", "send")


def _prep(ctx, f):
    """Names that must not be substituted by their definition: the definition consumes input (a stream read, a struct
    parse, next(..)), so two occurrences of the name are one value but two occurrences of the definition are not."""
    hit = _IMPURE.get(id(f.node))
    if hit is not None and hit[0] is f.node:
        return hit[1]
    names = set()
    for st in statements(f.node):
        if isinstance(st, (ast.Assign, ast.AnnAssign)) and st.value is not None:
            tgts = st.targets if isinstance(st, ast.Assign) else [st.target]
            cons = False
            for c in ast.walk(st.value):
                if isinstance(c, ast.Call):
                    if isinstance(c.func, ast.Attribute) and c.func.attr in _CONSUMING:
                        cons = True
                    elif dotted(c.func) == "next" or ctx.rs.resolve_call(f, c).kind == "struct":
                        cons = True
            if cons:
                for t in tgts:
                    names.update(n.id for n in ast.walk(t) if isinstance(n, ast.Name))
    _IMPURE[id(f.node)] = (f.node, frozenset(names))
    return _IMPURE[id(f.node)][1]


def _inl(f, e, stop=()):
    """`inline` that keeps input-consuming definitions (see _prep) as names."""
    if e is None:
        return None
    hit = _IMPURE.get(id(f.node))
    keep = hit[1] if hit is not None and hit[0] is f.node else frozenset()
    return inline(f.node, e, stop=frozenset(stop) | keep)


def _isrc(f, e, stop=()):
    return src(_inl(f, e, stop)) if e is not None else None


def _is_none(f, e):
    e = _inl(f, e)
    return isinstance(e, ast.Constant) and e.value is None


def _edge_atoms(ctx, f):
    """[(edge node, atom)]: `atom` holds on that outcome edge of an if/while test.  Tests are taken with their
    single-definition temporaries (flag variables) expanded and in negation normal form, so `ok = a == b; if not ok:
    continue` contributes `a == b` to the fall-through edge exactly like `if a == b:` does to its true edge."""
    key = ("_c17_edge_atoms", f.fq)
    cache = ctx.__dict__.setdefault("_c17_cache", {})
    if key in cache:
        return cache[key]
    cfg = ctx.cfg(f)
    _prep(ctx, f)
    out = []
    for n, s in cfg.stmt.items():
        if isinstance(s, (ast.If, ast.While)):
            t = _inl(f, s.test)
            for lab, neg in (("true", False), ("false", True)):
                for a in conjuncts(nnf(t, neg)):
                    out.append((cfg.edge_node(s, lab), a))
    cache[key] = out
    return out


def _holds_at(ctx, f, stmt, pred):
    """Edges that dominate `stmt` and carry an atom satisfying pred."""
    cfg = ctx.cfg(f)
    if stmt is None or not cfg.has(stmt):
        return []
    tn = cfg.node(stmt)
    return [(e, a) for e, a in _edge_atoms(ctx, f) if pred(a) and e != tn and cfg.dominates(e, tn)]


def _attr_stores(fn, attr):
    """[(stmt, text of the object expression, value|None)] for every store into attribute `attr` (plain / annotated /
    tuple assignment, setattr); value None = not a plain expression."""
    out = []
    for st in statements(fn):
        pairs = []
        if isinstance(st, ast.Assign):
            for t in st.targets:
                if isinstance(t, (ast.Tuple, ast.List)):
                    if isinstance(st.value, (ast.Tuple, ast.List)) and len(t.elts) == len(st.value.elts):
                        pairs += list(zip(t.elts, st.value.elts))
                    elif not any(isinstance(e, ast.Starred) for e in t.elts):
                        pairs += [(e, ast.Subscript(value=st.value, slice=ast.Constant(value=i), ctx=ast.Load())) for i, e in enumerate(t.elts)]
                    else:
                        pairs += [(e, None) for e in t.elts]
                else:
                    pairs.append((t, st.value))
        elif isinstance(st, ast.AnnAssign) and st.value is not None:
            pairs.append((st.target, st.value))
        elif isinstance(st, ast.AugAssign):
            pairs.append((st.target, None))
        elif isinstance(st, ast.Expr) and isinstance(st.value, ast.Call) and dotted(st.value.func) == "setattr" and len(st.value.args) == 3 \
                and isinstance(st.value.args[1], ast.Constant) and st.value.args[1].value == attr:
            out.append((st, src(st.value.args[0]), st.value.args[2]))
        for t, v in pairs:
            if isinstance(t, ast.Attribute) and t.attr == attr:
                out.append((st, src(t.value), v))
    return out


def _xor_chain(ctx, f, e):
    """e (already inlined) as (base, [keys]): xor(xor(base, k1), k2) -> (base, [k1, k2]).  The result of utils.xor has the
    length of its first operand and the second is cycled over it, so keys commute with each other but not with the base."""
    keys = []
    while isinstance(e, ast.Call) and _fq(ctx, f, e) == "utils.xor":
        b = _bound(ctx, f, e)
        if not b or b.get("data") is None or b.get("key") is None:
            break
        keys.append(b["key"])
        e = b["data"]
    return e, keys


def _reversed_of(e):
    """X for `X[::-1]`, `bytes(reversed(X))`, `bytes(X[::-1])`; else None."""
    if isinstance(e, ast.Call) and dotted(e.func) in ("bytes", "bytearray") and len(e.args) == 1 and not e.keywords:
        inner = e.args[0]
        if isinstance(inner, ast.Call) and dotted(inner.func) == "reversed" and len(inner.args) == 1:
            return inner.args[0]
        return _reversed_of(inner)
    if isinstance(e, ast.Subscript) and isinstance(e.slice, ast.Slice) and e.slice.lower is None and e.slice.upper is None and _c(e.slice.step) == -1:
        return e.value
    return None


class _Num:
    """Numeric evaluation of integer expressions of a function: module constants, arithmetic, `io.DEFAULT_BUFFER_SIZE`
    (8192), `len(..)` of constant byte strings, of utils.xor results (length of the data operand) and of elements of a
    comprehension over a constant table.  `poly` gives the polynomial of an offset expression with everything numeric
    folded and single-definition locals expanded."""

    def __init__(self, ctx, f, env, consts=None):
        self.ctx, self.f, self.env, self.consts = ctx, f, env, consts or {}
        self._busy = set()

    def val(self, e, stop=()):
        return self._iv(_inl(self.f, e, stop)) if e is not None else None

    def _iv(self, e):
        v = _c(e, self.env)
        if isinstance(v, int) and not isinstance(v, bool):
            return v
        if dotted(e) in ("io.DEFAULT_BUFFER_SIZE", "DEFAULT_BUFFER_SIZE"):
            return 8192
        if isinstance(e, ast.Name) and e.id in self.consts and e.id not in self._busy:
            self._busy.add(e.id)  # a module constant defined by an integer expression (`N = len(TABLE)`)
            try:
                return self._iv(self.consts[e.id])
            finally:
                self._busy.discard(e.id)
        if isinstance(e, ast.UnaryOp) and isinstance(e.op, ast.USub):
            a = self._iv(e.operand)
            return None if a is None else -a
        if isinstance(e, ast.BinOp):
            a, b = self._iv(e.left), self._iv(e.right)
            if a is None or b is None:
                return None
            if isinstance(e.op, ast.Add):
                return a + b
            if isinstance(e.op, ast.Sub):
                return a - b
            if isinstance(e.op, ast.Mult):
                return a * b
            if isinstance(e.op, ast.FloorDiv) and b:
                return a // b
            if isinstance(e.op, ast.LShift) and 0 <= b < 64:
                return a << b
            return None
        if isinstance(e, ast.Call) and dotted(e.func) == "len" and len(e.args) == 1:
            return self._blen(e.args[0])
        return None

    def _blen(self, e):
        v = _c(e, self.env)
        if isinstance(v, (bytes, list, tuple, str)):
            return len(v)
        if isinstance(e, ast.Call) and _fq(self.ctx, self.f, e) == "utils.xor":
            b = _bound(self.ctx, self.f, e)
            return self._blen(b["data"]) if b and b.get("data") is not None else None
        if isinstance(e, ast.Subscript) and not isinstance(e.slice, ast.Slice):
            i = self._iv(e.slice)
            comp = e.value
            if isinstance(comp, ast.Call) and dotted(comp.func) in ("list", "tuple") and len(comp.args) == 1:
                comp = comp.args[0]
            if i is not None and isinstance(comp, (ast.ListComp, ast.GeneratorExp)) and len(comp.generators) == 1 and not comp.generators[0].ifs \
                    and isinstance(comp.generators[0].target, ast.Name):
                tab = _c(comp.generators[0].iter, self.env)
                if isinstance(tab, (list, tuple)) and -len(tab) <= i < len(tab):
                    var = comp.generators[0].target.id

                    class _S(ast.NodeTransformer):
                        def visit_Name(self, node):
                            return ast.Constant(value=tab[i]) if node.id == var else node

                    return self._blen(_S().visit(copy.deepcopy(comp.elt)))
        return None

    def poly(self, e, stop=()):
        if e is None:
            return None
        e = _inl(self.f, e, stop)

        def subst(x):
            v = self._iv(x)
            return SymPoly.const(v) if v is not None else None

        return sympoly(e, subst)


def _linear(p, var):
    """(a, c) if polynomial p == a*var + c, else None."""
    if p is None:
        return None
    a = c = 0
    for k, v in p.terms.items():
        if k == ():
            c = v
        elif k == (var,):
            a = v
        else:
            return None
    return a, c


def _last_ops(ctx, f, ops, target):
    """The stream operations (elements of `ops`; None = function entry) that can be the last one executed before the call
    `target`: the file position at `target` is what they left.  Returns None if two operations share a statement."""
    cfg = ctx.cfg(f)
    fv = FuncView.of(f.node)
    nodes = {}
    for o in ops:
        st = fv.stmt_of(o)
        if st is None or not cfg.has(st):
            return None
        n = cfg.node(st)
        if n in nodes:
            return None
        nodes[n] = o
    tn = cfg.node(fv.stmt_of(target))
    out = [o for n, o in nodes.items() if cfg.reaches(n, tn, avoiding=list(nodes))]
    if cfg.reaches(ENTRY, tn, avoiding=list(nodes)):
        out.append(None)
    return out


def _class_fields(ctx, fq):
    """Ordered [(field, default|None)] of a dataclass-like class body."""
    out = []
    for st in ctx.repo.cls(fq).body:
        if isinstance(st, ast.AnnAssign) and isinstance(st.target, ast.Name):
            out.append((st.target.id, st.value))
    return out


def _ctor_calls(ctx, f, cls_fq):
    return [c for c in fn_calls(f.node) if ctx.rs.resolve_call(f, c).kind == "class" and ctx.rs.resolve_call(f, c).fq == cls_fq]


def _ctor_args(ctx, call, cls_fq):
    """field -> argument expression (class default when omitted); None when the call uses * / ** arguments."""
    if any(isinstance(a, ast.Starred) for a in call.args) or any(k.arg is None for k in call.keywords):
        return None
    fields = _class_fields(ctx, cls_fq)
    out = {n: d for n, d in fields}
    for (n, _d), a in zip(fields, call.args):
        out[n] = a
    for k in call.keywords:
        out[k.arg] = k.value
    return out


# ================================================================================================================== R1
def _checksum_atom(ctx, f, atom, g):
    """Is `atom` (holding on an edge) the equality `<g>.checksum == payload_checksum(V) + 1`?
    None: the atom does not compare <g>.checksum; else (ok, text of V | None, explanation)."""
    if not (isinstance(atom, ast.Compare) and len(atom.ops) == 1 and isinstance(atom.ops[0], ast.Eq)):
        return None
    l, r = atom.left, atom.comparators[0]
    pl, pr = sympoly(l), sympoly(r)
    if pl is None or pr is None:
        return None
    d = pl - pr
    ck = f"{g}.checksum"
    if ck not in d.atoms():
        return None
    calls = [c for side in (l, r) for c in ast.walk(side) if isinstance(c, ast.Call) and _fq(ctx, f, c) == "guardrails.payload_checksum"]
    if len(calls) != 1:
        return False, None, f"`{src(atom)}` does not compare the stored checksum with one payload_checksum(..)"
    b = _bound(ctx, f, calls[0]) or {}
    v = next(iter(b.values()), None)
    want = SymPoly.atom(ck) - SymPoly.atom(src(calls[0])) - SymPoly.const(1)
    ok = d == want or d == -want
    return ok, (src(v) if v is not None else None), f"`{src(atom)}` is {'' if ok else 'NOT '}<stored checksum> == payload_checksum({src(v) if v is not None else '?'}) + 1"


def _covered(ctx, f, st, good, resets, sinks):
    """A store is covered by the matching-checksum edges `good` if one of them dominates it, or if every path from the
    store to a point where the object is handed out (yield / end of function) passes one of them or a reset to None."""
    cfg = ctx.cfg(f)
    n = cfg.node(st)
    if any(e != n and cfg.dominates(e, n) for e in good):
        return True, "dominated by the matching-checksum edge"
    if not good and not resets:
        return False, "no checksum comparison covers it"
    via = list(good) + list(resets)
    bad = [s for s in sinks if cfg.reaches(n, s, avoiding=via)]
    if not bad:
        return True, "every path from the store to a yield passes the matching-checksum edge or a reset to None"
    return False, "reaches a yield / the end of the generator without passing the matching-checksum edge: " + " -> ".join(cfg.witness_path(n, bad[0], avoiding=via)[:8])


def _flows(f, e, st, depth=0):
    """[(anchors, leaf)]: the defining expressions the value of `e` at statement `st` may come from, each with the
    statements it passes through on its way (the using statement first, then the definitions of the locals it is copied
    through).  Locals with several plain definitions (a result variable set on different branches) and constant
    projections of tuple-valued locals (`a, b = result`) are followed."""
    e = strip_cast(e)
    fn = f.node
    if depth <= 6:
        if isinstance(e, ast.Name) and e.id not in params(fn):
            defs = assignments_to(fn, e.id)
            if defs and all(v is not None and isinstance(d, ast.stmt) for d, v in defs):
                out = []
                for d, v in defs:
                    for anchors, leaf in _flows(f, v, d, depth + 1):
                        out.append(([st] + anchors, leaf))
                return out
        if isinstance(e, ast.Subscript) and isinstance(e.value, ast.Name) and isinstance(e.slice, ast.Constant) and type(e.slice.value) is int and e.value.id not in params(fn):
            i = e.slice.value
            defs = assignments_to(fn, e.value.id)
            if defs and all(isinstance(v, (ast.Tuple, ast.List)) and isinstance(d, ast.stmt) and 0 <= i < len(v.elts)
                            and not any(isinstance(x, ast.Starred) for x in v.elts) for d, v in defs):
                out = []
                for d, v in defs:
                    for anchors, leaf in _flows(f, v.elts[i], d, depth + 1):
                        out.append(([st] + anchors, leaf))
                return out
    return [([st], e)]


def r1(ctx):
    f = ctx.repo.func("guardrails.iter_guardrail_configs_with_beacon")
    cfg = ctx.cfg(f)
    _prep(ctx, f)
    ystmts = [s for s in statements(f.node) if isinstance(s, ast.Expr) and isinstance(s.value, (ast.Yield, ast.YieldFrom))]
    sinks = [cfg.node(s) for s in ystmts if cfg.has(s)] + [EXIT]

    def stores(attr):
        """[(stmt, object text, [(anchors, non-None leaf)] | None)] and the CFG nodes of the pure None stores per object"""
        live, resets = [], {}
        for st, g, v in _attr_stores(f.node, attr):
            if v is None:
                live.append((st, g, None))
                continue
            fl = [(a, leaf) for a, leaf in _flows(f, v, st) if not _is_none(f, leaf)]
            if fl:
                live.append((st, g, fl))
            elif cfg.has(st):
                resets.setdefault(g, []).append(cfg.node(st))
        return live, resets

    clive, cresets = stores("unmasked_beacon_config")
    klive, kresets = stores("payload_xor_key")
    if not clive:
        ctx.undecided("R1", "DOM", f, "unmasked_beacon_config stores", "no store into <candidate>.unmasked_beacon_config found in the validating iterator")
    else:
        ctx.rep.count("unmasked_config_stores", len(clive), floor=1)

    def covered(anchors, good, resets):
        """the value is produced, copied or stored under the matching-checksum edge"""
        ok, why = _covered(ctx, f, anchors[0], good, resets, sinks)
        if not ok:
            for a in anchors[1:]:
                n = cfg.node(a) if cfg.has(a) else None
                if n is not None and any(e != n and cfg.dominates(e, n) for e in good):
                    return True, f"the stored value is produced under the matching-checksum edge (`{src(a)[:60]}`)"
        return ok, why

    chains = []  # (stmt, object text, inlined stored value)
    good_of = {}  # (object text, candidate key text) -> matching edges of a configuration value unmasked with that key
    for st, g, fl in clive:
        if fl is None:
            ctx.undecided("R1", "DOM", f, "unmasked_beacon_config store", f"`{src(st)}` is not a plain assignment", st)
            continue
        for anchors, leaf in fl:
            vi = _inl(f, leaf)
            vs = src(vi)
            good, notes = [], []
            for e, a in _edge_atoms(ctx, f):
                m = _checksum_atom(ctx, f, a, g)
                if m is None:
                    continue
                notes.append(m[2] + ("" if m[1] == vs or not m[0] else f"; but the value stored is `{vs}`"))
                if m[0] and m[1] == vs:
                    good.append(e)
            ok, why = covered(anchors, good, cresets.get(g, []))
            ctx.ob("R1", "DOM", f, "unmasked_beacon_config stored under the checksum test", ok, f"{why}; checksum tests: {sorted(set(notes)) or 'none'}", st)
            chains.append((st, g, vi))
            _base, keys = _xor_chain(ctx, f, vi)
            for k in keys:
                if not _is_beacon_key(f, k, g):
                    good_of.setdefault((g, src(k)), []).extend(good)
    # the environmental key recorded with it: same coverage, and it is the key the stored value was unmasked with
    for g in sorted({g for _st, g, _fl in clive}):
        ks = [(s2, fl2) for s2, g2, fl2 in klive if g2 == g]
        if not ks:
            ctx.ob("R1", "DOM", f, "payload_xor_key stored under the same test", False, "the environmental key is never recorded for the candidate whose configuration is unmasked")
        for s2, fl2 in ks:
            if fl2 is None:
                ctx.undecided("R1", "DOM", f, "payload_xor_key stored under the same test", f"`{src(s2)}` is not a plain assignment", s2)
                continue
            for anchors, leaf in fl2:
                k2 = _isrc(f, leaf)
                same = (g, k2) in good_of
                ok2, why2 = covered(anchors, good_of.get((g, k2), []), kresets.get(g, []))
                ctx.ob("R1", "DOM", f, "payload_xor_key stored under the same test", ok2 and same,
                       f"{why2}; recorded key `{k2}` is {'' if same else 'NOT '}the candidate-key operand of an unmasked configuration stored for the same candidate", s2)
    _r1_chain(ctx, f, chains)
    _r1_scan_prefill(ctx)
    _r1_yields(ctx, f, ystmts)


def _is_beacon_key(f, k, g):
    return src(k) == f"{g}.beacon_xor_key" or _c(k) == BEACON_XOR_KEY


def _r1_chain(ctx, f, chains):
    """stored value = xor(xor(<g>.masked_beacon_config, single-byte key), K) with K iterating over
    find_xor_key_candidates(<stream over xor(<g>.masked_beacon_config, single-byte key)>)."""
    text = "unguarded = xor(xor(masked, beacon key), candidate)"
    cands = [c for c in fn_calls(f.node) if _fq(ctx, f, c) == "guardrails.find_xor_key_candidates"]
    for st, g, vi in chains:
        base, keys = _xor_chain(ctx, f, vi)
        if not keys:
            ctx.ob("R1", "AGREE", f, text, False, f"the stored value `{src(vi)}` is not an xor of the masked configuration", st)
            continue
        if len(cands) != 1:
            ctx.undecided("R1", "AGREE", f, text, f"{len(cands)} calls of find_xor_key_candidates: cannot tell where the candidate keys come from")
            continue
        b = _bound(ctx, f, cands[0]) or {}
        stream = _inl(f, next(iter(b.values()), None))
        data = stream
        while isinstance(data, ast.Call) and (dotted(data.func) or "").split(".")[-1] in ("BytesIO", "BufferedReader") and len(data.args) == 1:
            data = data.args[0]
        if data is stream or data is None:
            ctx.undecided("R1", "AGREE", f, text, f"candidate keys are derived from `{src(stream)}`, not an in-memory stream")
            continue
        cbase, ckeys = _xor_chain(ctx, f, data)
        # the candidate variable: bound by a for loop over (an alias of) the candidates call
        kvars = []
        for s2 in statements(f.node):
            if isinstance(s2, ast.For) and isinstance(s2.target, ast.Name) and origin(f.node, s2.iter) is cands[0]:
                kvars.append(s2.target.id)
        if not kvars:
            ctx.undecided("R1", "AGREE", f, text, "the loop over find_xor_key_candidates(..) cannot be located")
            continue
        ksrc = sorted(src(k) for k in keys)
        extra = [k for k in keys if src(k) not in kvars]
        ok_base = src(base) == f"{g}.masked_beacon_config" and src(cbase) == src(base)
        ok_keys = len(keys) == len(ckeys) + 1 and sorted(src(k) for k in extra) == sorted(src(k) for k in ckeys) and len(extra) == len(keys) - 1
        ok_bk = len(extra) == 1 and _is_beacon_key(f, extra[0], g)
        ok = ok_base and ok_keys and ok_bk
        ctx.ob("R1", "AGREE", f, text, ok,
               ("candidate keys are tried on the single-byte-unmasked configuration they were derived from" if ok else "unmasking chain is wrong")
               + f": stored value = {src(base)} ^ {ksrc}; candidates derived from {src(cbase)} ^ {sorted(src(k) for k in ckeys)}; candidate variable {kvars}", st)
    # constants stored as the single-byte key
    for st, g, v in _attr_stores(f.node, "beacon_xor_key"):
        val = _c(_inl(f, v)) if v is not None else None
        if isinstance(val, bytes):
            ctx.ob("R1", "TABLE", f, "beacon_xor_key constant", val == BEACON_XOR_KEY, f"single-byte key {val!r} (required {BEACON_XOR_KEY!r})", st)


def _r1_scan_prefill(ctx):
    g = ctx.repo.func("guardrails.iter_guardrail_configs")
    _prep(ctx, g)
    text = "GuardrailMetadata(unmasked_beacon_config=None, payload_xor_key=None)"
    ctors = _ctor_calls(ctx, g, "guardrails.GuardrailMetadata")
    if not ctors:
        ctx.undecided("R1", "AGREE", g, text, "no construction of GuardrailMetadata found in the scan")
        return
    for c in ctors:
        a = _ctor_args(ctx, c, "guardrails.GuardrailMetadata")
        if a is None or "unmasked_beacon_config" not in a or "payload_xor_key" not in a:
            ctx.undecided("R1", "AGREE", g, text, "constructor arguments are not explicit (* / ** call)", c)
            continue
        vals = {k: a[k] for k in ("unmasked_beacon_config", "payload_xor_key")}
        ok = all(v is not None and _is_none(g, v) for v in vals.values())
        ctx.ob("R1", "AGREE", g, text, ok, "the scan itself never reports an unmasked configuration" if ok else
               f"iter_guardrail_configs pre-fills the unmasked configuration / key: { {k: src(v) if v is not None else 'missing' for k, v in vals.items()} }", c)
        bk = a.get("beacon_xor_key")
        val = _c(_inl(g, bk)) if bk is not None else None
        if isinstance(val, bytes):
            ctx.ob("R1", "TABLE", g, "beacon_xor_key constant", val == BEACON_XOR_KEY, f"single-byte key {val!r} (required {BEACON_XOR_KEY!r})", c)


def _r1_yields(ctx, f, ystmts):
    """Every guard configuration delivered by the scan is yielded exactly once (with or without unmasked configuration)."""
    cfg = ctx.cfg(f)
    outer = [s for s in statements(f.node) if isinstance(s, ast.For) and isinstance(s.target, ast.Name)
             and _fq(ctx, f, origin(f.node, s.iter)) == "guardrails.iter_guardrail_configs"]
    if len(outer) != 1:
        ctx.undecided("R1", "AGREE", f, "yields", f"{len(outer)} for-loops over iter_guardrail_configs(..): the loop that delivers the guard configurations cannot be located")
        return
    lp = outer[0]
    g = lp.target.id
    ys = [s for s in ystmts if isinstance(s.value, ast.Yield) and s.value.value is not None and _isrc(f, s.value.value) == g and cfg.has(s)]
    other = [s for s in ystmts if s not in ys]
    if other:
        ctx.undecided("R1", "AGREE", f, "yields", f"yields of something else than the guard configuration: {[src(s) for s in other][:3]}")
        return
    yn = [cfg.node(s) for s in ys]
    H, it = cfg.node(lp), cfg.edge_node(lp, "iter")
    missing = cfg.reaches(it, H, avoiding=yn)
    twice = [s for s, n in zip(ys, yn) if any(cfg.reaches(n, m, avoiding=[H]) for m in yn)]
    ok = bool(ys) and not missing and not twice
    detail = f"{len(ys)} yield site(s); " + (
        "every guard configuration is yielded exactly once per iteration (matching key or not)" if ok else
        ("a path through the loop body yields nothing: " + " -> ".join(cfg.witness_path(it, H, avoiding=yn)[:8]) if missing or not ys else
         f"a guard configuration can be yielded more than once (`{src(twice[0])}` can be followed by another yield in the same iteration)"))
    ctx.ob("R1", "AGREE", f, "yields", ok, detail)


# ================================================================================================================== R2
def _truthy_pred(names):
    """pred(atom) for atoms (nnf) that establish a non-empty / non-None value of one of the expressions `names`."""
    def is_len(e):
        return isinstance(e, ast.Call) and dotted(e.func) == "len" and len(e.args) == 1 and src(e.args[0]) in names

    def pred(a):
        if src(a) in names or is_len(a):
            return True
        if isinstance(a, ast.Call) and dotted(a.func) == "bool" and len(a.args) == 1 and src(a.args[0]) in names:
            return True
        if isinstance(a, ast.Compare) and len(a.ops) == 1:
            l, op, r = a.left, a.ops[0], a.comparators[0]
            for x, y, o in ((l, r, op), (r, l, {ast.Lt: ast.Gt, ast.Gt: ast.Lt, ast.LtE: ast.GtE, ast.GtE: ast.LtE}.get(type(op), type(op))())):
                if src(x) in names and isinstance(y, ast.Constant) and y.value is None and isinstance(o, (ast.IsNot, ast.NotEq)):
                    return True
                if src(x) in names and isinstance(y, ast.Constant) and y.value in (b"", "") and isinstance(y.value, (bytes, str)) and isinstance(o, ast.NotEq):
                    return True
                if is_len(x) and isinstance(y, ast.Constant) and type(y.value) is int:
                    if (isinstance(o, ast.Gt) and y.value >= 0) or (isinstance(o, ast.GtE) and y.value >= 1) or (isinstance(o, ast.NotEq) and y.value == 0):
                        return True
        return False

    return pred


def _iter_source(f, it, var):
    """(iterable the elements are drawn from, [conditions that hold for an element, written over the name `var`]): iterating
    `(x for x in IT if C(x))` / `[x for x in IT if C(x)]` / `filter(lambda x: C(x), IT)` / `iter(..)` of one of these draws
    from IT under C(<var>)."""
    it = origin(f.node, it)
    conds = []

    def rename(e, old):
        class _R(ast.NodeTransformer):
            def visit_Name(self, node):
                return ast.copy_location(ast.Name(id=var, ctx=node.ctx), node) if node.id == old else node
        return _R().visit(copy.deepcopy(e))

    for _ in range(4):
        if var and isinstance(it, (ast.GeneratorExp, ast.ListComp)) and len(it.generators) == 1 and isinstance(it.generators[0].target, ast.Name) \
                and isinstance(it.elt, ast.Name) and it.elt.id == it.generators[0].target.id:
            gen = it.generators[0]
            for c in gen.ifs:
                conds += conjuncts(nnf(rename(c, gen.target.id)))
            it = origin(f.node, gen.iter)
        elif var and isinstance(it, ast.Call) and dotted(it.func) == "filter" and len(it.args) == 2 and isinstance(it.args[0], ast.Lambda) \
                and len(it.args[0].args.args) == 1:
            conds += conjuncts(nnf(rename(it.args[0].body, it.args[0].args.args[0].arg)))
            it = origin(f.node, it.args[1])
        elif isinstance(it, ast.Call) and dotted(it.func) == "iter" and len(it.args) == 1 and not it.keywords:
            it = origin(f.node, it.args[0])
        else:
            break
    return it, conds


def _loop_source(f, loop):
    """_iter_source of a for loop binding one name."""
    return _iter_source(f, loop.iter, loop.target.id if isinstance(loop.target, ast.Name) else None)


class _Draw:
    """How a local name is bound to an element of an iterable.
    kind "for":  `for <name> in IT` - stmt is the loop; the element is drawn on the loop's iterate edge;
    kind "next": `<name> = next(IT[, default])` - stmt is the assignment; `default` the expression delivered when IT is exhausted
                 (None: no default, exhaustion raises StopIteration).
    source / filters as in _iter_source."""

    def __init__(self, kind, stmt, source, filters, default=None, has_default=False):
        self.kind, self.stmt, self.source, self.filters, self.default, self.has_default = kind, stmt, source, filters, default, has_default


def _draw_of(f, name):
    """_Draw of a local with exactly one binding, else None."""
    defs = assignments_to(f.node, name) if name.isidentifier() else []
    if len(defs) != 1:
        return None
    st, v = defs[0]
    if isinstance(st, ast.For) and isinstance(st.target, ast.Name):
        source, filters = _iter_source(f, st.iter, name)
        return _Draw("for", st, source, filters)
    if isinstance(st, (ast.Assign, ast.AnnAssign)) and isinstance(v, ast.Call) and dotted(v.func) == "next" and 1 <= len(v.args) <= 2 and not v.keywords:
        source, filters = _iter_source(f, v.args[0], name)
        return _Draw("next", st, source, filters, v.args[1] if len(v.args) == 2 else None, len(v.args) == 2)
    return None


def _absent_pred(name):
    """pred(atom) for atoms (nnf) that hold only when the local `name` is None / falsy (the default of an exhausted next)."""
    def pred(a):
        if isinstance(a, ast.UnaryOp) and isinstance(a.op, ast.Not) and src(a.operand) == name:
            return True
        if isinstance(a, ast.Compare) and len(a.ops) == 1 and isinstance(a.ops[0], (ast.Is, ast.Eq)):
            l, r = a.left, a.comparators[0]
            return any(src(x) == name and isinstance(y, ast.Constant) and y.value is None for x, y in ((l, r), (r, l)))
        return False
    return pred


def r2(ctx):
    f = ctx.repo.func("beacon.BeaconConfig.from_file")
    cfg = ctx.cfg(f)
    fv = FuncView.of(f.node)
    _prep(ctx, f)
    builds = []
    for c in fn_calls(f.node):
        cal = ctx.rs.resolve_call(f, c)
        is_ctor = (cal.kind == "class" and cal.fq == "beacon.BeaconConfig") or (cal.kind == "func" and cal.func is not None and cal.func.fq.startswith("beacon.BeaconConfig."))
        if not is_ctor:
            continue
        for a in list(c.args) + [k.value for k in c.keywords]:
            ai = _inl(f, a)
            if isinstance(ai, ast.Attribute) and ai.attr == "unmasked_beacon_config":
                builds.append((c, ai))
                break
    if not builds:
        ctx.undecided("R2", "DOM", f, "cls(<candidate>.unmasked_beacon_config)", "no construction of a BeaconConfig from a guardrail candidate's unmasked configuration found in from_file")
        return
    ctx.rep.count("guardrail_config_constructions", len(builds), floor=1)
    by_cand = {}
    for c, ai in builds:
        by_cand.setdefault(src(ai.value), []).append(c)
    for c, ai in builds:
        g = src(ai.value)
        st = fv.stmt_of(c)
        # where the candidate comes from: the for loop / the `next(..)` that binds it (possibly over a filtering comprehension,
        # whose conditions then hold for the drawn element)
        draw = _draw_of(f, g)
        filters = []
        if draw is not None:
            if draw.kind == "for":
                filters = draw.filters if draw.stmt in fv.ancestors(c) else []
            elif not draw.has_default:
                filters = draw.filters
            elif _is_none(f, draw.default) and _holds_at(ctx, f, st, _truthy_pred({g})):
                filters = draw.filters  # the drawn element is not the None default here
        # a result variable of a search (`found = None; for x in ..: if ..: found = x; break`): the conditions under which the
        # candidate was copied into it hold for it as well
        copies = []
        if draw is None and g.isidentifier():
            defs = assignments_to(f.node, g)
            live = [(d, v) for d, v in defs if not (v is not None and _is_none(f, v))]
            if live and all(isinstance(v, ast.Name) and isinstance(d, ast.stmt) and cfg.has(d) for d, v in live) and _holds_at(ctx, f, st, _truthy_pred({g})):
                copies = [(d, v.id) for d, v in live]
        pred = _truthy_pred({src(ai)})
        hold = [a for _e, a in _holds_at(ctx, f, st, pred)] + [a for a in filters if pred(a)]
        if not hold and copies:
            per = [[a for _e, a in _holds_at(ctx, f, d, _truthy_pred({f"{n}.unmasked_beacon_config"}))] for d, n in copies]
            if all(per):
                hold = per[0]
        ok = bool(hold)
        ctx.ob("R2", "DOM", f, "cls(<candidate>.unmasked_beacon_config)", ok,
               f"a configuration is built from a guardrail candidate only when its unmasked config is truthy (`{src(hold[0])}` holds)" if ok else "guardrail candidate used without testing its unmasked config", c)
        # the guard metadata attached to the result is that candidate
        text = "<result>.guardrails = <candidate>"
        name = None
        if isinstance(st, (ast.Assign, ast.AnnAssign)) and st.value is c:
            tg = st.targets[0] if isinstance(st, ast.Assign) else st.target
            name = tg.id if isinstance(tg, ast.Name) else None
        if name is None:
            if any(_isrc(f, a) == g for a in list(c.args) + [k.value for k in c.keywords]):
                ctx.undecided("R2", "AGREE", f, text, "the candidate is passed to the constructor; where it is attached cannot be located", c)
            elif isinstance(st, ast.Return):
                ctx.ob("R2", "AGREE", f, text, False, "the configuration is returned without the guard metadata of its candidate", c)
            else:
                ctx.undecided("R2", "AGREE", f, text, "the constructed configuration is not bound to a local name", c)
        else:
            from csverif.q import reaching_defs
            gs = [(s2, v2) for s2, b2, v2 in _attr_stores(f.node, "guardrails") if b2 == name and any(d is st for d, _v in reaching_defs(ctx, f, name, s2))]
            ok = bool(gs) and all(v2 is not None and _isrc(f, v2) == g for _s, v2 in gs)
            ctx.ob("R2", "AGREE", f, text, ok, "the guard metadata attached is the candidate the configuration came from" if ok else
                   ("the guard metadata of the candidate is never attached to the configuration built from it" if not gs else f"guardrails attribute is not the same candidate: {[src(s2) for s2, _v in gs]}"), c)
        # the candidate comes from the checksum-validating iterator
        text = "for <candidate> in iter_guardrail_configs_with_beacon(..)"
        sdraw = draw
        if sdraw is None and len({n for _d, n in copies}) == 1:
            sdraw = _draw_of(f, copies[0][1])  # the result variable of a search is a copy of the drawn candidate
        if sdraw is None:
            ctx.undecided("R2", "AGREE", f, text, f"`{g}` is not bound by a single for loop / next(..): where the candidate comes from cannot be located", c)
        else:
            it = sdraw.source
            fq = _fq(ctx, f, it) if isinstance(it, ast.Call) else None
            if fq == "guardrails.iter_guardrail_configs_with_beacon":
                ctx.ob("R2", "AGREE", f, text, True, "candidates come from the checksum-validating iterator")
            elif fq and fq.startswith("guardrails."):
                ctx.ob("R2", "AGREE", f, text, False, f"candidates come from {fq}, not from the checksum-validating iter_guardrail_configs_with_beacon", sdraw.stmt)
            else:
                ctx.undecided("R2", "AGREE", f, text, f"candidates are drawn from `{src(it)[:60]}`, which is not a call of a guardrails iterator", sdraw.stmt)
        if c is by_cand[g][0]:
            _r2_exhaustive(ctx, f, g, draw, [fv.stmt_of(c2) for c2 in by_cand[g]])


def _r2_exhaustive(ctx, f, g, draw, build_stmts):
    """The validating iterator also delivers metadata-only candidates (marker found, no key candidate matched the checksum):
    a protected area behind such a candidate is recovered only if the search goes on.  Necessary condition on the CFG: once
    a candidate has been drawn, the function is left (return / raise) only through a construction from that candidate;
    every other path leads back to the next draw, or runs over an edge on which the iterator is exhausted."""
    text = "search goes on after a candidate without unmasked config"
    if draw is None:
        ctx.undecided("R2", "EXIT", f, text, f"`{g}` is not bound by a single for loop / next(..): the point where a candidate is drawn cannot be located")
        return
    cfg = ctx.cfg(f)
    if not cfg.has(draw.stmt) or any(s is None or not cfg.has(s) for s in build_stmts):
        ctx.undecided("R2", "EXIT", f, text, "the draw / the construction is not a statement of the function's control-flow graph")
        return
    via = [cfg.node(s) for s in build_stmts]
    via += [n for n, s in cfg.stmt.items() if isinstance(s, ast.ExceptHandler)]  # an exception is not "giving up on a candidate"
    if draw.kind == "for":
        start = cfg.edge_node(draw.stmt, "iter")
        via.append(cfg.node(draw.stmt))
        how = "the loop header"
    else:
        start = cfg.node(draw.stmt)
        via.append(start)
        how = "the next(..) that draws the following candidate"
        if draw.has_default:
            if not _is_none(f, draw.default):
                ctx.undecided("R2", "EXIT", f, text, f"next(.., {src(draw.default)}): the value that stands for the exhausted iterator is not None", draw.stmt)
                return
            absent = _absent_pred(g)
            via += [e for e, a in _edge_atoms(ctx, f) if absent(a)]
            how += f" / an edge where `{g}` is the None default (iterator exhausted)"
    leaks = [t for t in (EXIT, RAISE) if cfg.reaches(start, t, avoiding=via)]
    ok = not leaks
    ctx.ob("R2", "EXIT", f, text, ok,
           f"after a candidate is drawn the function is left only through the construction from it; every other path reaches {how}" if ok else
           "a drawn candidate can end the search without a configuration being built from it and without the iterator being exhausted "
           "(a recoverable protected area behind a metadata-only candidate is lost): " + " -> ".join(cfg.witness_path(start, leaks[0], avoiding=via)[:8]), draw.stmt)


# ================================================================================================================== R7
def _flag_pruned(ctx, f):
    """Copy of the CFG of `f` without the branch edges that are infeasible by flag propagation: a name in a test whose
    definitions *reaching that test* are all constants of one truthiness is assumed to have it (three-valued evaluation of
    the test under these named assumptions; per test, because a flag has different reaching definitions at different sites)."""
    from csverif.q import reaching_defs, tv_eval

    cfg = ctx.cfg(f)
    c = copy.copy(cfg)
    c.g = cfg.g.copy()
    c._idom = None
    c._ipdom = None
    used = []
    for n, st in cfg.stmt.items():
        if not isinstance(st, (ast.If, ast.While)):
            continue
        assume = {}
        for nm in {x.id for x in ast.walk(st.test) if isinstance(x, ast.Name)}:
            if nm in params(f.node):
                continue
            rd = reaching_defs(ctx, f, nm, st)
            vals = set()
            for _d, v in rd:
                try:
                    vals.add(bool(const_eval(v, None)) if v is not None else None)
                except (NotConst, TypeError, KeyError):
                    vals.add(None)
            if rd and len(vals) == 1 and None not in vals:
                assume[nm] = vals.pop()
        if not assume:
            continue
        v = tv_eval(st.test, assume)
        if v is None:
            continue
        dead = cfg.edge_node(st, "false" if v else "true")
        if c.g.has_edge(n, dead):
            c.g.remove_edge(n, dead)
            used.append(f"`{src(st.test)}` is always {v} here ({', '.join(f'{k} == {b}' for k, b in sorted(assume.items()))} on every path reaching it)")
    return c, used


def _stream_leaves(ctx, f, e, at, depth=0):
    """[(statement, expression)]: the defining expressions that may flow into `e` evaluated at statement `at` (copies followed
    flow-sensitively through reaching definitions), each with the statement that defines it (`at` for a direct use)."""
    from csverif.q import reaching_defs

    e = strip_cast(e)
    if depth <= 6 and isinstance(e, ast.Name) and e.id not in params(f.node):
        rd = reaching_defs(ctx, f, e.id, at)
        if rd and all(v is not None and isinstance(d, ast.stmt) for d, v in rd):
            out = []
            for d, v in rd:
                out.extend(_stream_leaves(ctx, f, v, d, depth + 1))
            return out
    return [(at, e)]


def r7(ctx):
    """'raw or XorEncoded': the stream the Guardrails fallback of from_file scans.  A protected payload delivered XorEncoded
    carries marker, guard configuration and masked configuration behind the XorEncode layer, so the raw file object may be
    handed to the validating iterator only after decoding it was attempted (and refused): on every feasible path from the
    function entry over a point where the raw file becomes the scanned stream to the scan lies an attempt
    XorEncodedFile.from_file(<file>) (the `try` statement that contains it - the exceptional edge leaves from before the call).  Infeasible branch edges are
    pruned by flag propagation (_flag_pruned) first."""
    f = ctx.repo.func("beacon.BeaconConfig.from_file")
    cfg = ctx.cfg(f)
    fv = FuncView.of(f.node)
    _prep(ctx, f)
    text = "guardrails fallback scans the XorDecoded stream when there is one"
    draws = [c for c in fn_calls(f.node) if (_fq(ctx, f, c) or "") in ("guardrails.iter_guardrail_configs_with_beacon", "guardrails.iter_guardrail_configs")]
    if not draws:
        ctx.undecided("R7", "DOM", f, text, "no call of a guardrails iterator found in from_file: the stream it scans cannot be located")
        return

    def is_decode(c):
        if not isinstance(c, ast.Call):
            return False
        cal = ctx.rs.resolve_call(f, c)
        fq = (cal.func.fq if cal.kind == "func" and cal.func is not None else cal.fq) or ""
        return fq.startswith("xordecode.XorEncodedFile")

    # the attempts: statements that call the decoder; inside a `try` the try statement stands for the attempt
    attempts = {}
    for c in fn_calls(f.node):
        if not is_decode(c):
            continue
        st = fv.stmt_of(c)
        tr = [a for a in fv.ancestors(c) if isinstance(a, ast.Try) and any(c in list(ast.walk(b)) for b in a.body)]
        for s in ([st] if st is not None else []) + tr:
            if cfg.has(s):
                attempts[cfg.node(s)] = s
    pruned, used = _flag_pruned(ctx, f)
    for call in draws:
        b = _bound(ctx, f, call) or {}
        s_arg = next(iter(b.values()), None)
        dst = fv.stmt_of(call)
        if s_arg is None or dst is None or not cfg.has(dst):
            ctx.undecided("R7", "DOM", f, text, "the stream argument of the guardrails iterator cannot be located", call)
            continue
        leaves = _stream_leaves(ctx, f, s_arg, dst)
        raw = [(st, e) for st, e in leaves if isinstance(e, ast.Name) and e.id in params(f.node)]
        dec = [(st, e) for st, e in leaves if is_decode(e)]
        other = [(st, e) for st, e in leaves if (st, e) not in raw and (st, e) not in dec]
        if other:
            ctx.undecided("R7", "DOM", f, text, f"the scanned stream may be `{src(other[0][1])[:60]}`: neither the file parameter nor its XorEncodedFile view", call)
            continue
        if raw and not dec:
            ctx.ob("R7", "DOM", f, text, False, f"the scanned stream is always the raw file object `{src(raw[0][1])}`: no XorEncodedFile view of it ever reaches the guardrails scan; "
                   "a Guardrails-protected payload delivered XorEncoded is scanned in its encoded form and never found", call)
            continue
        D = cfg.node(dst)
        bad = None
        for st, e in raw:
            if not cfg.has(st):
                continue
            n = cfg.node(st)
            if n in attempts:
                continue
            if pruned.reaches(ENTRY, n, avoiding=list(attempts)) and (n == D or pruned.reaches(n, D, avoiding=list(attempts))):
                bad = (st, e, n)
                break
        if bad is None:
            ctx.ob("R7", "DOM", f, text, True, (f"the raw file object becomes the scanned stream only after an attempt to open its XorEncodedFile view ({len(attempts)} attempt statement(s))" if raw else
                                                 "the scanned stream is always the XorEncodedFile view") + (f"; pruned: {used}" if used else ""), call)
            continue
        st, e, n = bad
        # branches that decide between an attempt and the bypass
        feasible = [a for a in attempts if pruned.reaches(ENTRY, a) and pruned.reaches(a, cfg.node(dst))]
        deciding = []
        for bn, bs in cfg.stmt.items():
            if not isinstance(bs, (ast.If, ast.While)) or not pruned.reaches(ENTRY, bn, avoiding=list(attempts)):
                continue
            edges = [cfg.edge_node(bs, lab) for lab in ("true", "false")]
            edges = [x for x in edges if pruned.g.has_edge(bn, x)]
            to_att = [any(x == a or pruned.reaches(x, a, avoiding=[y for y in edges if y != x]) for a in feasible) for x in edges]
            to_raw = [pruned.reaches(x, D, avoiding=list(attempts)) for x in edges]
            if len(edges) == 2 and any(ta and not tr for ta, tr in zip(to_att, to_raw)) and any(tr for tr in to_raw):
                deciding.append(bs)
        opaque = [bs for bs in deciding if any(isinstance(x, ast.Call) for x in ast.walk(_inl(f, bs.test)))]
        path = " -> ".join((pruned.witness_path(ENTRY, n, avoiding=list(attempts)) + (pruned.witness_path(n, D, avoiding=list(attempts))[1:] if n != D else []))[:10])
        if feasible and opaque:
            ctx.undecided("R7", "DOM", f, text, f"the decoding attempt is selected by `{src(opaque[0].test)[:60]}`, which the rule cannot relate to 'the payload is XorEncoded'", opaque[0])
            continue
        ctx.ob("R7", "DOM", f, text, False,
               f"the raw file object `{src(e)}` is handed to the guardrails scan without an attempt to decode it: "
               + ("no XorEncodedFile attempt is feasible before the fallback" if not feasible else f"the attempt is skipped depending on {[src(bs.test)[:40] for bs in deciding]}, which does not look at the payload")
               + (f" ({'; '.join(used)})" if used else "") + f"; a Guardrails-protected payload delivered XorEncoded is scanned in its encoded form and never found: {path}", st)


# ================================================================================================================== R3
def _leaf_defs(fn, e, depth=0, at=None):
    """(stmt|None, expr) leaves a local may come from: copies and multiple definitions are followed."""
    e = strip_cast(e)
    if depth <= 6 and isinstance(e, ast.Name) and e.id not in params(fn):
        defs = assignments_to(fn, e.id)
        if defs and all(v is not None for _s, v in defs):
            out = []
            for s, v in defs:
                out.extend(_leaf_defs(fn, v, depth + 1, s))
            return out
    return [(at, e)]


def _u32be_of(ctx, f, e):
    """None: e is not an integer decoding at all; else (ok, bytes expression): ok iff e decodes a 4-byte big-endian
    unsigned integer."""
    if not isinstance(e, ast.Call):
        return None
    if _fq(ctx, f, e) == "utils.unpack":
        b = _bound(ctx, f, e) or {}
        signed = _c(b.get("signed"))
        return (_c(b.get("size")) == 4 and _c(b.get("byteorder")) == "big" and not signed), b.get("data")
    d = dotted(e.func)
    if d == "int.from_bytes" and e.args:
        bo = e.args[1] if len(e.args) > 1 else next((k.value for k in e.keywords if k.arg == "byteorder"), None)
        signed = next((k.value for k in e.keywords if k.arg == "signed"), None)
        data = e.args[0]
        four = isinstance(data, ast.Subscript) and isinstance(data.slice, ast.Slice) and data.slice.lower is None and _c(data.slice.upper) == 4
        return (_c(bo) == "big" and not _c(signed)), (data.value if four else data)
    return None


def r3(ctx, mod, env):
    cd = ctx.cdefs("guardrails").get("c_guardrails")
    if cd is None:
        ctx.rep.error("anchor vanished: c_guardrails")
        return
    go, st_ = cd.enum("GuardOption").by_name(), cd.enum("SettingsType").by_name()
    ctx.ob("R3", "TABLE", "guardrails.py::C_GUARDRAILS_DEF::enum GuardOption", "members", go == tables.GUARD_OPTIONS, f"GuardOption = {go}")
    s = cd.struct("GuardrailSetting")
    ref = [cdefs_mod.serialise(cd, s, {"option": go.get(o, -1), "type": st_.get(t, -1), "length": ln}) for o, t, ln in tables.GUARD_STARTS]
    # the table is folded as a module-level constant: literal, or generated at import time from constants / enum members
    # of the parsed definition by comprehensions and the standard byte serialisers (see _ModEnv)
    ctx.repo.const("guardrails.GUARD_CONFIG_STARTS")  # anchor
    got = _c(ast.Name(id="GUARD_CONFIG_STARTS", ctx=ast.Load()), env)
    if got is None:
        ctx.undecided("R3", "TABLE", "guardrails.py::GUARD_CONFIG_STARTS", "table",
                      "the marker table is not a module-level constant the checker can fold (built by statements, by package helpers or from run-time values): its elements cannot be compared")
    else:
        got_l = list(got) if isinstance(got, (list, tuple)) else got
        ctx.ob("R3", "TABLE", "guardrails.py::GUARD_CONFIG_STARTS", "table", got_l == ref and cd.endian == ">", f"marker table {got}; serialisation of USER/COMPUTER/DOMAIN (SHORT,2) and LOCAL_IP (INT,4) from the definition: {ref}")
    f = ctx.repo.func("guardrails.iter_guardrail_configs")
    _prep(ctx, f)
    _r3_settings_bound(ctx, f, mod, env)
    text = "checksum = u32be(setting.value)"
    ctors = _ctor_calls(ctx, f, "guardrails.GuardrailMetadata")
    args = [_ctor_args(ctx, c, "guardrails.GuardrailMetadata") for c in ctors]
    if not ctors or any(a is None or a.get("checksum") is None for a in args):
        ctx.undecided("R3", "AGREE", f, text, "the checksum argument of the GuardrailMetadata construction cannot be located")
        return
    _r3_fresh(ctx, f, ctors, args)
    want_opt = go.get("GUARD_PAYLOAD_CHECKSUM")
    for a in args:
        leaves = _leaf_defs(f.node, a["checksum"])
        decs = []
        unknown = []
        for st, e in leaves:
            if isinstance(_c(e, env), int):
                continue  # the "no checksum setting" default
            d = _u32be_of(ctx, f, e)
            if d is None or st is None:
                unknown.append(e)
            else:
                decs.append((st, e, d))
        if unknown or not decs:
            ctx.undecided("R3", "AGREE", f, text, f"the reported checksum comes from {[src(e)[:50] for e in unknown] or 'constants only'}: the decoding of the checksum setting cannot be located")
            continue
        for st, e, (be4, data) in decs:
            di = _inl(f, data) if data is not None else None
            is_value = isinstance(di, ast.Attribute) and di.attr == "value"
            sv = src(di.value) if is_value else None

            def opt_pred(atom, sv=sv):
                if not (isinstance(atom, ast.Compare) and len(atom.ops) == 1):
                    return False
                l, op, r = atom.left, atom.ops[0], atom.comparators[0]
                for x, y in ((l, r), (r, l)):
                    if src(x) == f"{sv}.option" and isinstance(op, (ast.Eq, ast.Is)) and ((dotted(y) or "").endswith("GuardOption.GUARD_PAYLOAD_CHECKSUM") or _c(y, env) == want_opt):
                        return True
                    if src(x) == f"{sv}.option.value" and isinstance(op, ast.Eq) and _c(y, env) == want_opt:
                        return True
                    if src(x) == f"{sv}.option.name" and isinstance(op, ast.Eq) and _c(y, env) == "GUARD_PAYLOAD_CHECKSUM":
                        return True
                if src(l) == f"{sv}.option" and isinstance(op, ast.In) and isinstance(r, (ast.Tuple, ast.List, ast.Set)) and len(r.elts) == 1 \
                        and (dotted(r.elts[0]) or "").endswith("GuardOption.GUARD_PAYLOAD_CHECKSUM"):
                    return True
                return False

            guards = _holds_at(ctx, f, st, opt_pred) if is_value else []
            def opaque(atom):
                """a condition on the setting's option the rule cannot interpret (not a comparison with a name/constant)"""
                if isinstance(atom, ast.Compare) and len(atom.ops) == 1 and isinstance(atom.ops[0], (ast.Eq, ast.NotEq, ast.Is, ast.IsNot, ast.In, ast.NotIn)):
                    sides = [atom.left, atom.comparators[0]]
                    return not all(dotted(x) is not None or src(x).startswith(f"{sv}.option") or isinstance(x, (ast.Constant, ast.Tuple, ast.List, ast.Set)) for x in sides)
                return True

            mentions = [a2 for e2, a2 in _edge_atoms(ctx, f) if is_value and f"{sv}.option" in src(a2) and opaque(a2) and ctx.cfg(f).dominates(e2, ctx.cfg(f).node(st))]
            if is_value and not guards and mentions:
                ctx.undecided("R3", "AGREE", f, text, f"the decoding is selected by `{src(mentions[0])}`, which the rule cannot relate to GUARD_PAYLOAD_CHECKSUM", st)
                continue
            ok = bool(be4 and is_value and guards)
            ctx.ob("R3", "AGREE", f, text, ok, "the stored checksum is the 4-byte big-endian value of the GUARD_PAYLOAD_CHECKSUM setting" if ok else
                   f"`{src(e)}`: 4-byte big-endian={bool(be4)}, of a setting's value={is_value}, only for the GUARD_PAYLOAD_CHECKSUM option={bool(guards)}", st)


def _r3_fresh(ctx, f, ctors, args):
    """What is parsed out of one guard configuration - the stored checksum and the settings - is reported for that guard
    configuration only.  Necessary condition (reaching definitions on the CFG, device 2/3): a local that the `checksum` /
    `settings` argument of a GuardrailMetadata construction reads (directly or through plain copies) and that is assigned
    or mutated inside the scan cycle is *re-bound on every path from one construction to the next*; otherwise the value
    of the candidate reported before reaches this report (a candidate without a checksum setting is then validated
    against a checksum that its own guard configuration does not store; settings pile up).

    Re-binding = a plain / tuple / for / with binding whose value does not mention the name itself; `x += ..`,
    `x = x + ..`, `x.append(..)`, `x[..] = ..` change the carried value and do not reset it.  A local that is neither bound
    nor mutated in the cycle is the same for all candidates (nothing to reset); parameters likewise."""
    cfg = ctx.cfg(f)
    fv = FuncView.of(f.node)
    reports = []
    for c in ctors:
        st = fv.stmt_of(c)
        if st is None or not cfg.has(st):
            ctx.undecided("R3", "DOM", f, "reported checksum parsed anew for every candidate", "the statement of the GuardrailMetadata construction is not in the CFG")
            return
        reports.append(cfg.node(st))
    pars = set(params(f.node))

    def bindings(name):
        """(reset nodes, changing nodes) of a local"""
        resets, changes = [], []
        for d, v in assignments_to(f.node, name):
            d = d if isinstance(d, ast.stmt) else fv.stmt_of(d)
            if d is None or not cfg.has(d):
                continue
            whole = d.value if isinstance(d, (ast.Assign, ast.AnnAssign)) and d.value is not None else None
            carried = isinstance(d, ast.AugAssign) or (whole is not None and any(isinstance(x, ast.Name) and x.id == name for x in ast.walk(whole)))
            (changes if carried else resets).append(cfg.node(d))
        for st in statements(f.node):
            if not cfg.has(st):
                continue
            heads = [st.value] if isinstance(st, ast.Expr) else []
            for n2 in heads:
                if isinstance(n2, ast.Call) and isinstance(n2.func, ast.Attribute) and n2.func.attr in _MUTATORS and isinstance(n2.func.value, ast.Name) and n2.func.value.id == name:
                    changes.append(cfg.node(st))
            tg = st.targets if isinstance(st, ast.Assign) else [st.target] if isinstance(st, (ast.AugAssign, ast.AnnAssign)) else st.targets if isinstance(st, ast.Delete) else []
            for t in tg:
                for x in ast.walk(t):
                    if isinstance(x, ast.Subscript) and isinstance(x.value, ast.Name) and x.value.id == name and isinstance(x.ctx, (ast.Store, ast.Del)):
                        changes.append(cfg.node(st))
        return resets, changes

    def stale(name, at, seen):
        """None, or (name, witness) when the value of local `name` read at CFG node `at` can be the one a previous report saw"""
        if name in pars or name in seen:
            return None
        seen = seen | {name}
        resets, changes = bindings(name)
        if not resets and not changes:
            return None  # not a local of this function (module constant, builtin)
        in_cycle = [n for n in resets + changes if any(cfg.reaches(r, n) for r in reports)]
        if not in_cycle:
            return None  # bound before the scan starts and never touched in it: the same for every candidate
        for r in reports:
            if cfg.reaches(r, at, avoiding=resets):
                return name, " -> ".join(cfg.witness_path(r, at, avoiding=resets)[:8])
        # fresh here; plain copies are followed to their source
        for d, v in assignments_to(f.node, name):
            v = strip_cast(v) if v is not None else None
            if isinstance(v, ast.Name) and isinstance(d, ast.stmt) and cfg.has(d):
                hit = stale(v.id, cfg.node(d), seen)
                if hit:
                    return hit
        return None

    for field in ("checksum", "settings"):
        text = f"reported {field} parsed anew for every candidate"
        for c, a, rn in zip(ctors, args, reports):
            e = a.get(field) if a else None
            if e is None:
                continue
            names = sorted({x.id for x in ast.walk(e) if isinstance(x, ast.Name) and isinstance(x.ctx, ast.Load)})
            hit = None
            checked = []
            for nm in names:
                rs, ch = bindings(nm)
                if nm in pars or not (rs or ch):
                    continue
                checked.append(nm)
                hit = hit or stale(nm, rn, frozenset())
            if not checked:
                continue
            if hit:
                ctx.ob("R3", "DOM", f, text, False, f"`{hit[0]}` is assigned or changed while a guard configuration is parsed but is not re-bound on every path from one GuardrailMetadata "
                       f"construction to the next ({hit[1]}): the {field} of the candidate reported before is reported again for a candidate whose own guard configuration does not set it", c)
            else:
                ctx.ob("R3", "DOM", f, text, True, f"{checked} are re-bound on every path from one GuardrailMetadata construction to the next (or never touched during the scan)", c)


def _r3_settings_bound(ctx, f, mod, env):
    """A guard configuration holds one setting per enabled guard option plus the mandatory checksum setting, i.e. up to
    len(GuardOption) settings, and the checksum setting comes last.  Necessary condition: whatever bounds the number of
    settings parsed per guard configuration (a test on the length of the list the parsed settings are appended to / on a
    counter, passed between any two parses; a constant `range` driving the parse loop) admits that many parses.

    Reasoning (interval on the count, loop body looked at once): let e be a branch edge carrying `count <= B` that lies on
    every path from one parse to the next, and let every path from a parse to e pass a statement that adds one to the count
    (which nothing in the loop decreases).  After j parses the count at e is >= c0 + j, so parse j+1 needs c0 + j <= B:
    at most B - c0 + 1 settings are parsed.  `count != K` is `count < K` when the count cannot step over K (at most one
    increment between two passes of e)."""
    text = "settings loop admits one setting per GuardOption"
    need = len(tables.GUARD_OPTIONS)
    cfg = ctx.cfg(f)
    fv = FuncView.of(f.node)
    num = _Num(ctx, f, env, consts=mod.consts)
    parses = []
    for c in fn_calls(f.node):
        cal = ctx.rs.resolve_call(f, c)
        if cal.kind == "struct" and cal.struct and cal.struct[2] == "GuardrailSetting":
            parses.append(c)
    pst = fv.stmt_of(parses[0]) if len(parses) == 1 else None
    loop = fv.enclosing(parses[0], (ast.While, ast.For)) if pst is not None else None
    if pst is None or not cfg.has(pst) or loop is None:
        ctx.undecided("R3", "ABS", f, text, f"{len(parses)} parse(s) of a GuardrailSetting inside a loop: the settings loop cannot be located")
        return
    P = cfg.node(pst)
    inner = {id(n) for n in ast.walk(loop)}
    limits = []  # (maximal number of parses, description, statement)
    if isinstance(loop, ast.For):
        it = _inl(f, loop.iter)
        if isinstance(it, ast.Name) and it.id in mod.consts:
            it = mod.consts[it.id]
        rv = _range_values(it, num._iv)
        if rv is not None:
            limits.append((len(range(*rv)) if rv[2] else 0, f"`for .. in {src(loop.iter)}` runs over range{rv}", loop))
    # ---- the counts: lists that start empty and are appended to in the loop, counters that start at a constant and are incremented
    counts = {}  # atom text -> (initial value, tick nodes, init nodes, name)
    for st in statements(f.node):
        if id(st) not in inner:
            continue
        name = None
        if isinstance(st, ast.Expr) and isinstance(st.value, ast.Call) and isinstance(st.value.func, ast.Attribute) and st.value.func.attr == "append" \
                and isinstance(st.value.func.value, ast.Name) and len(st.value.args) == 1:
            name, atom = st.value.func.value.id, f"len({st.value.func.value.id})"
        elif isinstance(st, ast.AugAssign) and isinstance(st.op, ast.Add) and isinstance(st.target, ast.Name) and num._iv(st.value) == 1:
            name, atom = st.target.id, st.target.id
        if name is None or name in params(f.node) or not cfg.has(st):
            continue
        counts.setdefault(atom, [None, [], [], name])[1].append(cfg.node(st))
    for atom, rec in list(counts.items()):
        name = rec[3]
        is_list = atom != name
        ticks = set(rec[1])
        ok = True
        inits = []
        for d, v in assignments_to(f.node, name):
            d = d if isinstance(d, ast.stmt) else fv.stmt_of(d)
            if d is None or not cfg.has(d):
                ok = False
            elif cfg.node(d) in ticks:
                continue
            elif id(d) in inner or v is None:
                ok = False  # changed in the loop in another way
            else:
                iv = (0 if (isinstance(v, (ast.List, ast.Tuple)) and not v.elts) or (isinstance(v, ast.Call) and dotted(v.func) == "list" and not v.args) else None) if is_list else num._iv(v)
                if iv is None:
                    ok = False
                inits.append((cfg.node(d), iv))
        if is_list:
            # any other mutation of the list in the loop (pop, clear, slice assignment, extend ..): the count is not understood
            for n2 in ast.walk(loop):
                if isinstance(n2, ast.Attribute) and isinstance(n2.value, ast.Name) and n2.value.id == name and n2.attr not in ("append", "__len__") \
                        and isinstance(fv.parent.get(id(n2)), ast.Call) and fv.parent.get(id(n2)).func is n2:
                    ok = False
                if isinstance(n2, (ast.Subscript,)) and isinstance(n2.value, ast.Name) and n2.value.id == name and isinstance(n2.ctx, (ast.Store, ast.Del)):
                    ok = False
        if not ok or not inits or len({iv for _n, iv in inits}) != 1:
            del counts[atom]
            continue
        rec[0], rec[2] = inits[0][1], [n for n, _iv in inits]
    stop = {rec[3] for rec in counts.values()}
    unread = []
    for n, s2 in cfg.stmt.items():
        if not isinstance(s2, (ast.If, ast.While)) or id(s2) not in inner or not counts:
            continue
        t = _inl(f, s2.test, stop)
        for lab, neg in (("true", False), ("false", True)):
            e = cfg.edge_node(s2, lab)
            for a in conjuncts(nnf(t, neg)):
                if not (isinstance(a, ast.Compare) and len(a.ops) == 1 and isinstance(a.ops[0], (ast.Lt, ast.LtE, ast.Gt, ast.GtE, ast.NotEq))):
                    continue
                pl, pr = num.poly(a.left, stop), num.poly(a.comparators[0], stop)
                if pl is None or pr is None:
                    continue
                hit = [(atom, _linear(pl - pr, atom)) for atom in counts if atom in (pl - pr).atoms()]
                if len(hit) != 1:
                    continue
                atom, lin = hit[0]
                c0, ticks, inits, _name = counts[atom]
                # the edge lies between any two parses (of one guard configuration), and every parse is counted before it
                between = cfg.reaches(P, P, avoiding=inits) and not cfg.reaches(P, P, avoiding=[e] + inits)
                if not between:
                    continue
                counted = not cfg.reaches(P, e, avoiding=list(ticks) + inits)
                if lin is None or lin[0] == 0 or not counted:
                    unread.append(src(a))
                    continue
                a_, c_ = lin
                op = type(a.ops[0])
                if a_ < 0:
                    a_, c_ = -a_, -c_
                    op = {ast.Lt: ast.Gt, ast.Gt: ast.Lt, ast.LtE: ast.GtE, ast.GtE: ast.LtE}.get(op, op)
                bound = -c_ / a_  # [linear-bound]: count `op` bound
                if op is ast.NotEq:
                    steps_over = any(cfg.reaches(t1, t2, avoiding=[e] + inits) for t1 in ticks for t2 in ticks)
                    if steps_over or bound != int(bound) or bound < c0:
                        unread.append(src(a))
                        continue
                    op = ast.Lt
                if op is ast.Lt:
                    top = -(-bound // 1) - 1  # largest integer < bound
                elif op is ast.LtE:
                    top = bound // 1
                else:
                    continue  # a lower bound on the count does not limit the number of parses
                limits.append((max(int(top) - c0 + 1, 1 if not cfg.dominates(e, P) else 0), f"`{src(a)}` holds between two parses with `{atom}` starting at {c0}", s2))
    if unread and not limits:
        ctx.undecided("R3", "ABS", f, text, f"a condition on the number of parsed settings lies between two parses but is not a linear bound the rule can read: {sorted(set(unread))[:3]}", loop)
        return
    bad = [(m, d, s2) for m, d, s2 in limits if m < need]
    if bad:
        m, d, s2 = min(bad, key=lambda x: x[0])
        ctx.ob("R3", "ABS", f, text, False, f"at most {m} settings are parsed per guard configuration ({d}), but a guard configuration with all guard options enabled holds "
               f"{need} settings ({', '.join(tables.GUARD_OPTIONS)}) and the checksum setting is the last one: its checksum is never read", s2)
    else:
        ctx.ob("R3", "ABS", f, text, True, (f"the number of settings parsed per guard configuration is limited to {min(m for m, _d, _s in limits)} >= {need} (one per GuardOption member)" if limits else
               f"nothing limits the number of settings parsed per guard configuration below {need} (one per GuardOption member): the loop ends at the terminator / end of data"), loop)


# ================================================================================================================== R4
def r4(ctx, mod, env):
    f = ctx.repo.func("guardrails.iter_guardrail_configs")
    cfg = ctx.cfg(f)
    fv = FuncView.of(f.node)
    _prep(ctx, f)
    num = _Num(ctx, f, env)
    bs, gs = _c(mod.consts.get("BEACON_CONFIG_PATCH_SIZE"), env), _c(mod.consts.get("GUARD_PATCH_SIZE"), env)
    ctx.ob("R4", "TABLE", "guardrails.py::constants", "patch sizes", (bs, gs) == (BEACON_AREA, GUARD_AREA), f"BEACON_CONFIG_PATCH_SIZE={bs} GUARD_PATCH_SIZE={gs} ({BEACON_AREA} / {GUARD_AREA})")
    table = _c(ast.Name(id="GUARD_CONFIG_STARTS", ctx=ast.Load()), env) if "GUARD_CONFIG_STARTS" in mod.consts else None
    table = list(table) if isinstance(table, (list, tuple)) and table and all(isinstance(x, bytes) for x in table) else None
    if table is None:
        ctx.undecided("R4", "AGREE", f, "marker length", "GUARD_CONFIG_STARTS is not a constant table of byte strings")
        return
    mlen = len(table[0])
    ctx.ob("R4", "TABLE", "guardrails.py::GUARD_CONFIG_STARTS", "marker length", all(len(x) == mlen for x in table), f"all markers have the same length ({sorted({len(x) for x in table})})")
    ps = params(f.node)
    fh = ps[0]
    key = ps[1] if len(ps) > 1 else None
    ops = [c for c in fn_calls(f.node) if isinstance(c.func, ast.Attribute) and c.func.attr in ("seek", "read") and dotted(c.func.value) == fh]
    readvars = {}
    for c in ops:
        st = fv.stmt_of(c)
        if c.func.attr == "read" and isinstance(st, (ast.Assign, ast.AnnAssign)) and st.value is c:
            tg = st.targets[0] if isinstance(st, ast.Assign) else st.target
            if isinstance(tg, ast.Name) and len(assignments_to(f.node, tg.id)) == 1:
                readvars[tg.id] = c
    stop = set(readvars)

    # ---- the marker test: `<two halves of a window> in <table masked with the key>`
    def table_keys(e):
        """keys the marker table is masked with on the right-hand side of `in`: [] for the plain table, [k] for
        [xor(m, k) for m in table]; None if not the marker table."""
        v = _c(e, env)
        if isinstance(v, (list, tuple, set, frozenset)) and sorted(v) == sorted(table):
            return []
        if isinstance(e, ast.Call) and dotted(e.func) in ("list", "tuple", "set", "frozenset") and len(e.args) == 1:
            e = e.args[0]
        if isinstance(e, (ast.ListComp, ast.GeneratorExp, ast.SetComp)) and len(e.generators) == 1 and not e.generators[0].ifs and isinstance(e.generators[0].target, ast.Name):
            tv = _c(e.generators[0].iter, env)
            if isinstance(tv, (list, tuple)) and sorted(tv) == sorted(table):
                base, keys = _xor_chain(ctx, f, e.elt)
                if src(base) == e.generators[0].target.id:
                    return keys
        return None

    # located on the branch edges (negation normal form): `if m not in T: continue` and `if m in T:` are the same hit edge
    tests = []
    for e, a in _edge_atoms(ctx, f):
        if isinstance(a, ast.Compare) and len(a.ops) == 1 and isinstance(a.ops[0], ast.In):
            tk = table_keys(a.comparators[0])
            if tk is not None:
                tests.append((e, a, tk))
    if len(tests) != 1:
        ctx.undecided("R4", "AGREE", f, "marker test", f"{len(tests)} membership tests against the (masked) marker table: the scan cannot be located")
        return
    hit_edge, mt, tkeys = tests[0]
    mst = cfg.stmt.get(("s", hit_edge[1]))
    lbase, lkeys = _xor_chain(ctx, f, mt.left)
    allkeys = [src(k) for k in tkeys + lkeys]
    halves = [k for k in [lbase] + lkeys if src(k) != key]
    nkey = len([k for k in allkeys if k == key]) + (1 if src(lbase) == key else 0)
    W = S1 = None
    shape = False
    nrev = 0
    if len(halves) == 2 and key is not None:
        # each half: a slice (possibly reversed) of the same block read from the file
        parts = []
        for h in halves:
            r = _reversed_of(h)
            sl = r if r is not None else h
            if isinstance(sl, ast.Subscript) and isinstance(sl.slice, ast.Slice) and src(sl.value) in readvars:
                parts.append((sl, r is not None))
        if len(parts) == 2 and src(parts[0][0].value) == src(parts[1][0].value):
            W = src(parts[0][0].value)
            nrev = sum(1 for _sl, rv in parts if rv)
            # the reversed one is the first half; without (exactly one) reversal take them in slice order
            parts.sort(key=lambda x: (not x[1]) if nrev == 1 else (x[0].slice.lower is not None))
            (ra, _), (b, _) = parts
            lo_a, hi_a, lo_b, hi_b = ra.slice.lower, ra.slice.upper, b.slice.lower, b.slice.upper
            s_a, s_b = num._iv(hi_a) if hi_a is not None else None, num._iv(lo_b) if lo_b is not None else None
            first = (lo_a is None or num._iv(lo_a) == 0) and ra.slice.step is None
            second = b.slice.step is None and (hi_b is None or num._iv(hi_b) == 2 * (s_b or 0))
            S1 = s_a
            shape = nrev == 1 and first and second and s_a is not None and s_a == s_b
    gen_scan = False
    if W is None:
        # the windows may be delivered by a package generator that cuts them out of bulk-read chunks
        OFF = _r4_generator_windows(ctx, f, env, num, mt, halves, key, nkey, allkeys, mlen, fh, mst)
        if OFF is False:
            ctx.undecided("R4", "AGREE", f, "marker test", f"`{src(mt)}`: the tested value is not built from two slices of one block read from the file")
            return
        gen_scan = True
    if gen_scan:
        if OFF is None:
            ctx.undecided("R4", "CURSOR", f, "read sequence", "the stream offset of the tested window is not bound to a name in the scan: the reported offsets cannot be compared")
            return
        return _r4_report(ctx, f, env, num, mlen, key, ops, readvars, stop, hit_edge, OFF, None, None)
    ok = shape and S1 == mlen and nkey == 1 and len(allkeys) + 1 - nkey == 2
    ctx.ob("R4", "AGREE", f, "marker test", bool(ok),
           (f"marker = reversed first half XOR second half of a 2*{mlen} window, compared with the marker table under the single-byte key" if ok else
            f"marker test `{src(mt)}`: halves split at {S1} (marker length {mlen}), first half reversed and second half as read={shape}, key `{key}` applied {nkey} time(s) (required once)"), mst)
    ctx.ob("R4", "AGREE", f, "marker length", S1 == mlen, f"the window is split at {S1}; marker length = {mlen}", mst)
    wread = readvars[W]
    wsize = num.val(wread.args[0], stop) if wread.args else -1
    prev = _last_ops(ctx, f, ops, wread)
    OFF = None
    if prev is not None and len(prev) == 1 and prev[0] is not None and prev[0].func.attr == "seek" and len(prev[0].args) == 1 and isinstance(prev[0].args[0], ast.Name):
        OFF = prev[0].args[0].id
    if OFF is None:
        ctx.undecided("R4", "CURSOR", f, "read sequence", f"the window `{src(wread)}` is not read right after one `seek(<scan variable>)`: {[src(p) if p is not None else 'entry' for p in (prev or [])]}")
        return
    wseek = prev[0]
    ctx.ob("R4", "CURSOR", f, "window", wsize == 2 * mlen, f"after seek({OFF}) a window of {wsize} bytes is read (required 2 * marker length = {2 * mlen})", wread)
    _r4_report(ctx, f, env, num, mlen, key, ops, readvars, stop, hit_edge, OFF, wread, wseek)


def _r4_report(ctx, f, env, num, mlen, key, ops, readvars, stop, hit_edge, OFF, wread, wseek):
    """What is reported for a hit at stream offset `OFF` (a local name of the scan), and - for the scan that seeks and reads
    one window per offset (`wread` / `wseek` given) - that the scan visits every offset."""
    cfg = ctx.cfg(f)
    fv = FuncView.of(f.node)
    # ---- what is reported for a hit
    ctors = _ctor_calls(ctx, f, "guardrails.GuardrailMetadata")
    args = _ctor_args(ctx, ctors[0], "guardrails.GuardrailMetadata") if len(ctors) == 1 else None
    if args is None:
        ctx.undecided("R4", "AGREE", f, "read sequence", f"{len(ctors)} explicit GuardrailMetadata constructions: what is reported for a hit cannot be located")
        return
    ctor_st = fv.stmt_of(ctors[0])
    dom = hit_edge != cfg.node(ctor_st) and cfg.dominates(hit_edge, cfg.node(ctor_st))
    ctx.ob("R4", "DOM", f, "report only for a marker", bool(dom), "a guard configuration is reported only where the marker test succeeded" if dom else "the report is not dominated by the marker test", ctors[0])

    def readvar(field):
        e = _inl(f, args.get(field), stop) if args.get(field) is not None else None
        return e.id if isinstance(e, ast.Name) and e.id in readvars else None

    MB, MG = readvar("masked_beacon_config"), readvar("masked_guard_config")
    goff = SymPoly.atom(OFF) + SymPoly.const(mlen)
    boff = goff - SymPoly.const(BEACON_AREA)
    if MB is None or MG is None:
        ctx.undecided("R4", "CURSOR", f, "read sequence", "the reported masked_beacon_config / masked_guard_config are not each the result of one read of the file")
    else:
        rb, rg = readvars[MB], readvars[MG]
        nb, ng = (num.val(rb.args[0], stop) if rb.args else -1), (num.val(rg.args[0], stop) if rg.args else -1)
        pb, pg = _last_ops(ctx, f, ops, rb), _last_ops(ctx, f, ops, rg)

        def at(prevs, want, also=None):
            if prevs is None or not prevs:
                return False, "?"
            descr = []
            good = True
            for p in prevs:
                if p is None:
                    good = False
                    descr.append("entry")
                elif also is not None and p is also:
                    descr.append("directly after " + src(p))
                elif p.func.attr == "seek" and len(p.args) == 1 and num.poly(p.args[0], stop) == want:
                    descr.append(f"seek({num.poly(p.args[0], stop)})")
                else:
                    good = False
                    descr.append(src(p))
            return good, ", ".join(descr)

        okb, db = at(pb, boff)
        okg, dg = at(pg, goff, also=rb if nb == BEACON_AREA else None)
        seq_ok = okb and okg and nb == BEACON_AREA and ng == GUARD_AREA
        ctx.ob("R4", "CURSOR", f, "read sequence", bool(seq_ok),
               f"masked beacon config: {nb} bytes at {db} (required {BEACON_AREA} at {boff}); masked guard config: {ng} bytes at {dg} (required {GUARD_AREA} at {goff} = right behind it)", rb)
        ctx.ob("R4", "AGREE", f, "masked blocks", bool(okg), "beacon block then guard block are read back to back" if okg else f"the guard block is read at {dg}", rg)
        # unmasking of the guard configuration
        u = args.get("unmasked_guard_config")
        ui = _inl(f, u, stop) if u is not None else None
        ubase, ukeys = _xor_chain(ctx, f, ui) if ui is not None else (None, [])
        rev = [k for k in ukeys if _reversed_of(k) is not None and src(_reversed_of(k)) == MB]
        kk = [k for k in ukeys if src(k) == key]
        ok = ubase is not None and src(ubase) == MG and len(ukeys) == 2 and len(rev) == 1 and len(kk) == 1
        ctx.ob("R4", "AGREE", f, "unmasked_guard_config", bool(ok), f"guard config is unmasked with the REVERSED masked beacon config and the single-byte key: {src(ui) if ui is not None else '?'}", ctors[0])
    gp, bp = num.poly(args.get("guard_config_offset"), stop), num.poly(args.get("beacon_config_offset"), stop)
    ctx.ob("R4", "AGREE", f, "guard_config_offset = offset + 6", gp == goff, f"reported guard config offset is {gp}; required <offset> + marker length ({mlen})", ctors[0])
    ctx.ob("R4", "AGREE", f, "beacon_config_offset", bp == boff, f"reported beacon config offset is {bp}; required guard offset - {BEACON_AREA} = {boff}", ctors[0])

    # ---- no admissible offset is skipped: conditions on the scan variable that dominate the report
    skipped = []
    for e, a in _edge_atoms(ctx, f):
        if not (isinstance(a, ast.Compare) and len(a.ops) == 1 and isinstance(a.ops[0], (ast.Lt, ast.LtE, ast.Gt, ast.GtE))):
            continue
        if e == cfg.node(ctor_st) or not cfg.dominates(e, cfg.node(ctor_st)):
            continue
        pl, pr = num.poly(a.left, stop), num.poly(a.comparators[0], stop)
        lin = _linear(pl - pr, OFF) if pl is not None and pr is not None else None
        if lin is None or lin[0] == 0:
            continue
        a_, c_ = lin
        op = type(a.ops[0])
        if a_ < 0:
            a_, c_ = -a_, -c_
            op = {ast.Lt: ast.Gt, ast.Gt: ast.Lt, ast.LtE: ast.GtE, ast.GtE: ast.LtE}[op]
        bound = -c_ / a_  # OFF op bound
        first_ok = BEACON_AREA - mlen  # smallest offset with room for the beacon area in front of the guard configuration
        if op in (ast.Lt, ast.LtE):
            skipped.append(f"`{src(a)}` never reports offsets above {bound}")
        elif (op is ast.GtE and bound > first_ok) or (op is ast.Gt and bound >= first_ok):
            skipped.append(f"`{src(a)}` skips admissible offsets from {first_ok} (beacon area starts at 0) up to {bound}")
    ctx.ob("R4", "ABS", f, "no admissible offset skipped", not skipped, "; ".join(skipped) if skipped else
           f"conditions on the scan variable that dominate the report exclude only offsets below {BEACON_AREA - mlen} (no room for the beacon area)", ctor_st)

    # ---- the scan visits every offset
    if wread is None:
        return  # windows delivered by a generator: decided there (_r4_generator_windows)
    loop = fv.enclosing(wread, (ast.While, ast.For))
    if not isinstance(loop, ast.While):
        ctx.undecided("R4", "LOOP", f, "every offset tested", "the scan is not a while loop over a position variable")
        return
    H = cfg.node(loop)
    inner = {id(n) for n in ast.walk(loop)}
    defs = assignments_to(f.node, OFF)
    incs, wrong, init = [], [], []
    for st, v in defs:
        s = st if isinstance(st, ast.stmt) else fv.stmt_of(st)
        if id(s) not in inner:
            init.append(num.val(v) if v is not None else None)
            continue
        if isinstance(s, ast.AugAssign) and isinstance(s.op, ast.Add) and num.val(s.value) == 1:
            incs.append(s)
        elif isinstance(s, (ast.Assign, ast.AnnAssign)) and v is not None and sympoly(v) == SymPoly.atom(OFF) + SymPoly.const(1):
            incs.append(s)
        else:
            wrong.append(s)
    inodes = [cfg.node(s) for s in incs]
    none = cfg.reaches(cfg.edge_node(loop, "true"), H, avoiding=inodes)
    twice = any(cfg.reaches(n, m, avoiding=[H]) for n in inodes for m in inodes)
    wsn, cn = cfg.node(fv.stmt_of(wseek)), cfg.node(ctor_st)
    moved = any(cfg.reaches(wsn, n, avoiding=[H]) and cfg.reaches(n, cn, avoiding=[H]) for n in inodes + [cfg.node(s) for s in wrong])
    if any(v is None for v in init) or not init:
        ctx.undecided("R4", "LOOP", f, "every offset tested", "the scan variable does not start from a constant: the scanned range cannot be located", loop)
        return
    ok = not wrong and bool(incs) and not none and not twice and not moved and init == [0]
    ctx.ob("R4", "LOOP", f, "every offset tested", ok,
           "the scan starts at 0 and advances exactly one byte on every cycle (termination: R6)" if ok else
           f"scan variable: initial values {init} (required [0]); other updates {[src(s) for s in wrong]}; a cycle without increment={bool(none)}; two increments in one cycle={bool(twice)}; "
           f"changed between the window seek and the report={bool(moved)}", loop)


def _unwrap_bytes(e):
    """X for bytes(X) / bytearray(X) / memoryview(X) (views and copies of the same bytes)"""
    while isinstance(e, ast.Call) and dotted(e.func) in ("bytes", "bytearray", "memoryview") and len(e.args) == 1 and not e.keywords:
        e = e.args[0]
    return e


def _r4_generator_windows(ctx, f, env, num, mt, halves, key, nkey, allkeys, mlen, fh, mst):
    """The two halves of the tested window are bound by `for .., a, b in G(fh, ..)` where G is a generator of the package
    that reads the stream in chunks and yields slices of a chunk.  Terms of the yielded elements are built in G with G's
    parameters bound to the call's arguments (device 3); the chunk loop body is looked at once, with the chunk start BASE
    and the position P in the chunk symbolic.

    Window geometry (device 4, intervals on P): a chunk of N bytes is read at BASE, P runs over range(0, E) and BASE advances
    by S per chunk.  For a *full* chunk (len(chunk) == N: the file may go on) E has the value Efull (len(chunk) -> N, min /
    max / + / - folded).  The offsets BASE + P with P < min(Efull, S) are visited in this chunk only, so each of their
    windows [P + c0, P + c0 + 2 * mlen) must lie inside the N bytes read:  c0 + min(Efull, S) - 1 + 2 * mlen <= N
    (a slice beyond the end of a bytes object is silently truncated, the marker relation then cannot hold).  No offset is
    skipped between two chunks iff Efull >= S.

    Returns False: not this shape (nothing recorded); else the name bound to the stream offset of the window in `f` (None if
    it cannot be located) after recording the obligations."""
    fvf = FuncView.of(f.node)
    if len(halves) != 2 or key is None:
        return False
    hs = []
    for h in halves:
        r = _reversed_of(h)
        x = _unwrap_bytes(r if r is not None else h)
        if not isinstance(x, ast.Name) or len(assignments_to(f.node, x.id)) != 1:
            return False
        hs.append((x.id, r is not None))
    lps = [st for st, _v in assignments_to(f.node, hs[0][0]) if isinstance(st, ast.For)]
    if len(lps) != 1 or not isinstance(lps[0].target, ast.Tuple) or not all(isinstance(t, ast.Name) for t in lps[0].target.elts):
        return False
    lp = lps[0]
    tnames = [t.id for t in lp.target.elts]
    if hs[1][0] not in tnames or hs[0][0] == hs[1][0]:
        return False
    call = origin(f.node, lp.iter)
    cal = ctx.rs.resolve_call(f, call) if isinstance(call, ast.Call) else None
    if cal is None or cal.kind != "func" or cal.func is None or cal.func.module is not f.module:
        return False
    G = cal.func
    from csverif.astutil import body_walk

    ys = [n for n in body_walk(G.node) if isinstance(n, (ast.Yield, ast.YieldFrom))]
    if len(ys) != 1 or not isinstance(ys[0], ast.Yield) or not isinstance(ys[0].value, ast.Tuple) or len(ys[0].value.elts) != len(tnames) \
            or any(isinstance(x, ast.Starred) for x in ys[0].value.elts):
        return False
    b = _bound(ctx, f, call) or {}
    pconsts, gfh = {}, None
    for p, a in b.items():
        if a is None:
            continue
        v = num.val(a)
        if v is not None:
            pconsts[p] = ast.Constant(value=v)
        elif _isrc(f, a) == fh:
            gfh = p
    if gfh is None:
        return False
    _prep(ctx, G)
    gnum = _Num(ctx, G, env, consts=pconsts)
    gcfg, gfv = ctx.cfg(G), FuncView.of(G.node)
    gops = [c for c in fn_calls(G.node) if isinstance(c.func, ast.Attribute) and c.func.attr in ("seek", "read") and dotted(c.func.value) == gfh]
    greads = {}
    for c in gops:
        st = gfv.stmt_of(c)
        if c.func.attr == "read" and isinstance(st, (ast.Assign, ast.AnnAssign)) and st.value is c:
            tg = st.targets[0] if isinstance(st, ast.Assign) else st.target
            if isinstance(tg, ast.Name) and len(assignments_to(G.node, tg.id)) == 1:
                greads[tg.id] = c
    gstop = set(greads)
    parts = []
    for name, rev in hs:
        e = _unwrap_bytes(_inl(G, ys[0].value.elts[tnames.index(name)], gstop))
        if not (isinstance(e, ast.Subscript) and isinstance(e.slice, ast.Slice) and e.slice.step is None):
            return False
        blk = _unwrap_bytes(e.value)
        if not (isinstance(blk, ast.Name) and blk.id in greads):
            return False
        lo = gnum.poly(e.slice.lower, gstop) if e.slice.lower is not None else SymPoly.const(0)
        hi = gnum.poly(e.slice.upper, gstop) if e.slice.upper is not None else None
        if lo is None or (e.slice.upper is not None and hi is None):
            return False
        parts.append((blk.id, rev, lo, hi))
    if parts[0][0] != parts[1][0]:
        return False
    # ---- located: from here on obligations are recorded
    blk = parts[0][0]
    nrev = sum(1 for p in parts if p[1])
    parts.sort(key=lambda p: not p[1])
    (_b1, _r1, lo_a, hi_a), (_b2, _r2, lo_b, hi_b) = parts
    ML = SymPoly.const(mlen)
    shape = nrev == 1 and hi_a is not None and hi_b is not None and hi_a - lo_a == ML and lo_b == hi_a and hi_b - lo_b == ML
    ok = shape and nkey == 1 and len(allkeys) + 1 - nkey == 2
    ctx.ob("R4", "AGREE", f, "marker test", bool(ok),
           (f"marker = reversed first half XOR second half of a 2*{mlen} window cut out of a chunk by {G.fq}, compared with the marker table under the single-byte key" if ok else
            f"marker test `{src(mt)}` on windows [{lo_a}:{hi_a}] / [{lo_b}:{hi_b}] of a chunk read by {G.fq} (marker length {mlen}): first half reversed and second half adjacent, "
            f"each one marker long={bool(shape)}, key `{key}` applied {nkey} time(s) (required once)"), mst)
    ctx.ob("R4", "AGREE", f, "marker length", hi_a is not None and hi_a - lo_a == ML, f"the first window is [{lo_a}:{hi_a}]; marker length = {mlen}", mst)
    # the offset delivered with the windows
    T_IN, T_ALL = "window inside the block read", "every offset tested"
    rd = greads[blk]
    N = gnum.val(rd.args[0], gstop) if rd.args else None
    atoms = sorted(lo_a.atoms())
    P = atoms[0] if len(atoms) == 1 else None
    lin = _linear(lo_a, P) if P is not None else None
    pdefs = assignments_to(G.node, P) if P is not None and P.isidentifier() else []
    ploop = pdefs[0][0] if len(pdefs) == 1 and isinstance(pdefs[0][0], ast.For) and isinstance(pdefs[0][0].target, ast.Name) else None
    prev = _last_ops(ctx, G, gops, rd)
    BASE = prev[0].args[0].id if prev is not None and len(prev) == 1 and prev[0] is not None and prev[0].func.attr == "seek" and len(prev[0].args) == 1 \
        and isinstance(prev[0].args[0], ast.Name) else None
    wl = gfv.enclosing(rd, (ast.While,))
    if N is None or lin is None or lin[0] != 1 or ploop is None or BASE is None or wl is None or not shape:
        why = ("the window shape is wrong (see marker test)" if not shape else
               f"chunk size {N}, window start `{lo_a}`, position loop {'found' if ploop is not None else 'not found'}, chunk start {'`' + BASE + '`' if BASE else 'not a single seek(<name>) before the read'}")
        ctx.undecided("R4", "ABS", G, T_IN, f"the chunked scan cannot be located: {why}", rd)
        ctx.undecided("R4", "LOOP", G, T_ALL, f"the chunked scan cannot be located: {why}", rd)
    else:
        c0 = int(lin[1])

        def full(e):
            """value of an integer expression of G when the chunk is full (len(<chunk>) == N)"""
            v = gnum._iv(e)
            if v is not None:
                return v
            if isinstance(e, ast.Call) and dotted(e.func) == "len" and len(e.args) == 1:
                x = _unwrap_bytes(e.args[0])
                return N if isinstance(x, ast.Name) and x.id == blk else None
            if isinstance(e, ast.Call) and dotted(e.func) in ("min", "max") and len(e.args) >= 2 and not e.keywords:
                vs = [full(a) for a in e.args]
                return None if any(v is None for v in vs) else (min if dotted(e.func) == "min" else max)(vs)
            if isinstance(e, ast.BinOp) and isinstance(e.op, (ast.Add, ast.Sub)):
                l, r = full(e.left), full(e.right)
                return None if l is None or r is None else (l + r if isinstance(e.op, ast.Add) else l - r)
            return None

        it = _inl(G, ploop.iter, gstop)
        rng = None
        if isinstance(it, ast.Call) and dotted(it.func) == "range" and 1 <= len(it.args) <= 3 and not it.keywords:
            a = it.args
            start = 0 if len(a) == 1 else gnum._iv(a[0])
            step = 1 if len(a) < 3 else gnum._iv(a[2])
            rng = (start, full(a[0] if len(a) == 1 else a[1]), step)
        # the chunk start: starts at 0, advanced by a constant once per chunk
        inner = {id(n) for n in ast.walk(wl)}
        incs, wrong, init = [], [], []
        for st, v in assignments_to(G.node, BASE):
            s2 = st if isinstance(st, ast.stmt) else gfv.stmt_of(st)
            if id(s2) not in inner:
                init.append(gnum.val(v) if v is not None else None)
            elif isinstance(s2, ast.AugAssign) and isinstance(s2.op, ast.Add) and gnum.val(s2.value) is not None:
                incs.append((s2, gnum.val(s2.value)))
            elif isinstance(s2, (ast.Assign, ast.AnnAssign)) and v is not None and gnum.poly(v) is not None and _linear(gnum.poly(v), BASE) is not None \
                    and _linear(gnum.poly(v), BASE)[0] == 1:
                incs.append((s2, int(_linear(gnum.poly(v), BASE)[1])))
            else:
                wrong.append(s2)
        H = gcfg.node(wl)
        inodes = [gcfg.node(s2) for s2, _k in incs]
        none = gcfg.reaches(gcfg.edge_node(wl, "true"), H, avoiding=inodes)
        twice = any(gcfg.reaches(n, m, avoiding=[H]) for n in inodes for m in inodes)
        strides = {k for _s, k in incs}
        if rng is None or rng[1] is None or rng[0] is None or rng[2] is None or wrong or len(strides) != 1 or none or twice or min(strides) <= 0:
            why = f"positions `{src(ploop.iter)}`, updates of the chunk start {[src(s2) for s2, _k in incs] + [src(s2) for s2 in wrong]} (a cycle without update={bool(none)}, two updates={bool(twice)})"
            ctx.undecided("R4", "ABS", G, T_IN, f"the positions / the stride of the chunked scan are not constants the rule can read: {why}", rd)
            ctx.undecided("R4", "LOOP", G, T_ALL, f"the positions / the stride of the chunked scan are not constants the rule can read: {why}", rd)
        else:
            S = strides.pop()
            E = rng[1]
            last_own = min(E, S) - 1  # the last position whose offset is visited in this chunk only
            need = c0 + last_own + 2 * mlen
            ok_in = need <= N
            ctx.ob("R4", "ABS", G, T_IN, ok_in,
                   f"a chunk of {N} bytes is read per {S} offsets, positions 0..{E - 1} of a full chunk are tested; the window of position {last_own} ends at byte {need} "
                   + ("<= chunk length: every window is complete" if ok_in else
                      f"> chunk length {N}: the windows of the last {min(need - N, last_own + 1)} offsets of every chunk are truncated (look-ahead {N - S} bytes, required 2 * marker length - 1 = {2 * mlen - 1}), "
                      "a guard configuration whose marker starts there is never found although the payload continues"), rd)
            ok_all = init == [0] and rng[0] == 0 and rng[2] == 1 and c0 == 0 and E >= S
            ctx.ob("R4", "LOOP", G, T_ALL, ok_all,
                   (f"chunks start at 0 and advance by {S}; positions 0..{E - 1} >= stride: every offset is delivered (termination: end of data)" if ok_all else
                    f"chunk start: initial {init} (required [0]), stride {S}; positions range({rng[0]}, {E}, {rng[2]}) of a full chunk, window start `{lo_a}`: offsets are skipped"), wl)
    # ---- the name bound to the stream offset of the window in the scan
    if BASE is None:
        return None
    for i, t in enumerate(tnames):
        if t in (hs[0][0], hs[1][0]):
            continue
        po = gnum.poly(ys[0].value.elts[i], gstop)
        if po is not None and po == SymPoly.atom(BASE) + lo_a and len(assignments_to(f.node, t)) == 1:
            return t
    return None


# ================================================================================================================== R5
def _range_values(e, ev):
    """(start, stop, step) of a range(..) call with numeric arguments."""
    if isinstance(e, ast.Call) and dotted(e.func) == "range" and 1 <= len(e.args) <= 3 and not e.keywords:
        vals = [ev(a) for a in e.args]
        if any(v is None for v in vals):
            return None
        if len(vals) == 1:
            return 0, vals[0], 1
        if len(vals) == 2:
            return vals[0], vals[1], 1
        return tuple(vals)
    return None


def r5(ctx):
    mod = ctx.repo.module("guardrails")
    menv = _menv(ctx, mod)
    f = ctx.repo.func("guardrails.find_xor_key_candidates")
    _prep(ctx, f)
    num = _Num(ctx, f, menv)
    fv = FuncView.of(f.node)
    # ---- n-gram length: the variable bound to grouper's `n`, and the values it ranges over
    gr = [c for c in fn_calls(f.node) if _fq(ctx, f, c) == "utils.grouper"]
    lo, hi = KEY_LENGTHS
    def const_range(loop):
        it = origin(f.node, loop.iter)
        if isinstance(it, ast.Name) and it.id in mod.consts:
            it = mod.consts[it.id]
        return _range_values(it, lambda a: num.val(a))

    lp = None
    if len(gr) != 1:
        ctx.undecided("R5", "AGREE", f, "grouper(chunk, n=keylen)", f"{len(gr)} calls of utils.grouper: the n-gram counting cannot be located")
        # the key lengths can still be located as the only loop of the function over a constant range
        rl = [s2 for s2 in statements(f.node) if isinstance(s2, ast.For) and isinstance(s2.target, ast.Name) and const_range(s2) is not None]
        lp = rl[0] if len(rl) == 1 else None
    else:
        b = _bound(ctx, f, gr[0]) or {}
        n = b.get("n")
        nv = strip_cast(n) if n is not None else None
        while isinstance(nv, ast.Name) and len(assignments_to(f.node, nv.id)) == 1 and assignments_to(f.node, nv.id)[0][1] is not None:
            nv = strip_cast(assignments_to(f.node, nv.id)[0][1])
        if isinstance(nv, ast.Name):
            d = assignments_to(f.node, nv.id)
            if len(d) == 1 and isinstance(d[0][0], ast.For) and isinstance(d[0][0].target, ast.Name):
                lp = d[0][0]
        if lp is not None:
            ctx.ob("R5", "AGREE", f, "grouper(chunk, n=keylen)", True, "n-grams of the key length are counted", gr[0])
        elif n is not None and num.val(n) is not None:
            ctx.ob("R5", "AGREE", f, "grouper(chunk, n=keylen)", False, f"n-grams of the fixed size {num.val(n)} are counted, not of the key length being tried", gr[0])
        else:
            ctx.undecided("R5", "AGREE", f, "grouper(chunk, n=keylen)", f"the n-gram size `{src(n) if n is not None else '?'}` is not bound by a for loop", gr[0])
    if lp is None:
        if not (len(gr) == 1 and n is not None and num.val(n) is not None):
            ctx.undecided("R5", "TABLE", f, "range(2, 257)", "the loop over the key lengths cannot be located")
    else:
        rv = const_range(lp)
        if rv is None:
            ctx.undecided("R5", "TABLE", f, "range(2, 257)", f"key lengths are drawn from `{src(lp.iter)}`, not a constant range")
        else:
            vals = range(*rv) if rv[2] else range(0)
            ok = bool(len(vals)) and len(vals) == hi - lo + 1 and vals[0] == lo and vals[-1] == hi
            ctx.ob("R5", "TABLE", f, "range(2, 257)", ok, f"key lengths tried: range{rv} = {vals[0] if len(vals) else '-'}..{vals[-1] if len(vals) else '-'} (required {lo}..{hi})", lp)
    # ---- n-grams are cut per chunk, so the grouping restarts at every chunk boundary: for key lengths that do not divide
    # the chunk size later chunks count a *rotated* key.  The whole protected area (BEACON_CONFIG_PATCH_SIZE bytes) must
    # therefore arrive as one chunk: read size >= area size (or an unbounded read).
    area = _c(mod.consts.get("BEACON_CONFIG_PATCH_SIZE"), menv) or BEACON_AREA
    fh = params(f.node)[0]
    sizes = []
    for c in fn_calls(f.node):
        a = None
        if dotted(c.func) == f"{fh}.read":
            a = c.args[0] if c.args else next((k.value for k in c.keywords if k.arg in ("size", "n")), None)
        elif dotted(c.func) in ("functools.partial", "partial") and c.args and dotted(c.args[0]) == f"{fh}.read":
            a = c.args[1] if len(c.args) > 1 else None
        else:
            continue
        v = -1 if a is None or (isinstance(a, ast.Constant) and a.value is None) else num.val(a)
        sizes.append((c, v))
    if not sizes:
        ctx.undecided("R5", "ABS", f, "one chunk covers the protected area", "no read of the candidate stream found")
    elif any(s is None for _c2, s in sizes):
        ctx.undecided("R5", "ABS", f, "one chunk covers the protected area", f"chunk size is not a constant: {[src(c) for c, s in sizes if s is None]}")
    else:
        ok = all(s < 0 or s >= area for _c2, s in sizes)
        ctx.ob("R5", "ABS", f, "one chunk covers the protected area", ok,
               f"read sizes {[s for _c2, s in sizes]} vs area {area} bytes (io.DEFAULT_BUFFER_SIZE taken as 8192)" + ("" if ok else ": n-gram phase is lost at a chunk boundary inside the area"), sizes[0][0])
    mc = [c for c in fn_calls(f.node) if isinstance(c.func, ast.Attribute) and c.func.attr == "most_common"]
    if not mc:
        ctx.undecided("R5", "AGREE", f, "most_common(2)", "no Counter.most_common(..) call: how candidates are ranked cannot be located")
    for c in mc:
        a = c.args[0] if c.args else next((k.value for k in c.keywords if k.arg == "n"), None)
        k = num.val(a) if a is not None and not (isinstance(a, ast.Constant) and a.value is None) else None
        par = fv.parent.get(id(c))
        if a is None and isinstance(par, ast.Subscript) and isinstance(par.slice, ast.Slice) and par.slice.lower is None:
            k = num.val(par.slice.upper)
            a = par.slice.upper
        ok = (a is None) or (k is not None and k >= 2)
        if a is not None and k is None:
            ctx.undecided("R5", "AGREE", f, "most_common(2)", f"`{src(c)}`: the number of ranked n-grams is not a constant", c)
        else:
            ctx.ob("R5", "AGREE", f, "most_common(2)", ok, f"the {k if a is not None else 'all'} most common n-grams are ranked (at least the two most common must be candidates)", c)
    _r5_any_bytes(ctx, f, gr, mc)
    _r5_checksum(ctx, menv)


_FILTERS = ("filter", "filterfalse", "takewhile", "dropwhile")


def _content_uses(node, is_elem, root=True):
    """Does the truth value of condition `node` depend on the *bytes* of an element (is_elem(sub-expression))?  Not a use of
    the content: the element's length (`len(E)`), type (`isinstance(E, ..)`), identity / membership tests with None
    (`E is None`, `None in E`: an element of a bytes object is never None), comparison with the empty string, the
    truthiness of the element itself (`E`, `not E`: non-empty for every n >= 1), and membership of the element in a
    local collection (`E in seen`: a relation to the elements met before, not to its bytes)."""
    if is_elem(node):
        return not root
    if isinstance(node, ast.UnaryOp) and isinstance(node.op, ast.Not):
        return _content_uses(node.operand, is_elem, root)
    if isinstance(node, ast.BoolOp):
        return any(_content_uses(v, is_elem, root) for v in node.values)
    if isinstance(node, ast.Call) and dotted(node.func) in ("len", "isinstance", "type"):
        return False
    if isinstance(node, ast.Compare) and len(node.ops) == 1:
        l, r = node.left, node.comparators[0]
        for x, y in ((l, r), (r, l)):
            if isinstance(y, ast.Constant) and (y.value is None or y.value == b"" or y.value == () or y.value == "") and is_elem(x):
                return False
        if isinstance(node.ops[0], (ast.In, ast.NotIn)) and is_elem(l) and isinstance(r, ast.Name):
            return False
    return any(_content_uses(ch, is_elem, False) for ch in ast.iter_child_nodes(node))


def _r5_any_bytes(ctx, f, gr, mc):
    """'any environmental key': inside the zero padding of the patch area the guarded data *is* the repeating key, so the key
    itself is an n-gram there - whatever bytes it holds.  Necessary condition (taint, device 1/2/3): whether an n-gram that
    grouper cut out is counted, and whether a ranked n-gram is yielded as candidate, does not depend on the bytes of that
    n-gram: no filter condition of a comprehension / filter(..) between grouper's result and the counter, and no branch atom
    on an edge dominating the counting statement / the yield, reads the content of the n-gram (length, type, None-ness,
    truthiness and the count are not content).  A condition on the bytes excludes the keys that do not satisfy it."""
    T_C, T_Y = "every n-gram is counted whatever bytes it holds", "a ranked n-gram is a candidate whatever bytes it holds"
    fv = FuncView.of(f.node)
    cfg = ctx.cfg(f)
    if len(gr) != 1 or not mc:
        return  # the anchors are reported as undecided by the obligations above

    def has_grams(e, tainted=()):
        return any((isinstance(x, ast.Call) and _fq(ctx, f, x) == "utils.grouper") or (isinstance(x, ast.Name) and x.id in tainted) for x in ast.walk(e))

    def names_of(t):
        return {x.id for x in ast.walk(t) if isinstance(x, ast.Name)}

    found = []      # (condition text) content filters
    opaque = []     # predicates the rule cannot read
    located = 0

    def scan_expr(e):
        """filters inside an (inlined) expression that the n-grams flow through"""
        nonlocal located
        for x in ast.walk(e):
            if isinstance(x, (ast.ListComp, ast.SetComp, ast.GeneratorExp, ast.DictComp)):
                tainted = set()
                for g in x.generators:
                    if has_grams(g.iter, tainted):
                        tainted |= names_of(g.target)
                    for c in g.ifs:
                        if tainted and _content_uses(c, lambda n: isinstance(n, ast.Name) and n.id in tainted):
                            found.append(src(c))
            elif isinstance(x, ast.Call) and (dotted(x.func) or "").split(".")[-1] in _FILTERS and len(x.args) == 2 and has_grams(x.args[1]):
                pr = x.args[0]
                if isinstance(pr, ast.Constant) and pr.value is None:
                    continue  # filter(None, ..): truthiness of the element
                if isinstance(pr, ast.Lambda) and len(pr.args.args) == 1:
                    an = pr.args.args[0].arg
                    if _content_uses(pr.body, lambda n: isinstance(n, ast.Name) and n.id == an):
                        found.append(src(x)[:80])
                else:
                    opaque.append(src(x)[:80])

    def scan_edges(st, elem_names):
        for _e, a in _holds_at(ctx, f, st, lambda a: True):
            if _content_uses(a, lambda n: isinstance(n, ast.Name) and n.id in elem_names):
                found.append(src(a))

    # ---- the counter: receiver of most_common; its counting sites
    counters, inline_counts = set(), []
    for c in mc:
        r = c.func.value
        if isinstance(r, ast.Name):
            counters.add(r.id)
        else:
            inline_counts.append((fv.stmt_of(c), r))
    sites = list(inline_counts)  # (statement, expression the counted keys come from)
    for st in statements(f.node):
        if isinstance(st, ast.Expr) and isinstance(st.value, ast.Call) and isinstance(st.value.func, ast.Attribute) and st.value.func.attr == "update" \
                and isinstance(st.value.func.value, ast.Name) and st.value.func.value.id in counters and st.value.args:
            sites.append((st, st.value.args[0]))
        elif isinstance(st, ast.AugAssign) and isinstance(st.target, ast.Subscript) and isinstance(st.target.value, ast.Name) and st.target.value.id in counters:
            sites.append((st, st.target.slice))
        elif isinstance(st, (ast.Assign, ast.AnnAssign, ast.AugAssign)) and st.value is not None \
                and any(isinstance(t, ast.Name) and t.id in counters for t in (st.targets if isinstance(st, ast.Assign) else [st.target])):
            # the counter (re)bound to / grown by a construction from the n-grams: Counter(<grams>), counter + Counter(<grams>)
            sites.extend((st, x.args[0]) for x in ast.walk(st.value) if isinstance(x, ast.Call) and x.args and not isinstance(x.args[0], ast.Starred))
    for st, e in sites:
        if st is None or not cfg.has(st):
            continue
        ei = _inl(f, e)
        if has_grams(ei):
            located += 1
            scan_expr(ei)
        # counted inside explicit loops over the n-grams: the loop targets are elements
        elem = set()
        for lp in fv.ancestors(st):
            if isinstance(lp, ast.For) and has_grams(_inl(f, lp.iter)):
                elem |= names_of(lp.target)
                scan_expr(_inl(f, lp.iter))
        if elem and (names_of(ei) & elem):
            located += 1
        if has_grams(ei) or elem:
            scan_edges(st, elem)
    if not located:
        ctx.undecided("R5", "TAINT", f, T_C, "the statement that counts the n-grams cut by grouper (update / construction / increment of the counter that is ranked) cannot be located")
    elif found:
        ctx.ob("R5", "TAINT", f, T_C, False, f"whether an n-gram is counted depends on its bytes (`{found[0]}`): inside the zero padding of the patch area the guarded data is the repeating key, so a key that fails "
               "this condition is never counted and never becomes a candidate - the property holds for ANY environmental key", gr[0])
    elif opaque:
        ctx.undecided("R5", "TAINT", f, T_C, f"the n-grams pass `{opaque[0]}`, a predicate the rule cannot read", gr[0])
    else:
        ctx.ob("R5", "TAINT", f, T_C, True, "no filter condition between grouper's result and the counter reads the bytes of an n-gram", gr[0])
    # ---- the yield of the ranked n-grams
    ys = [n for n in ast.walk(f.node) if isinstance(n, ast.Yield) and n.value is not None and fv.stmt_of(n) is not None and cfg.has(fv.stmt_of(n))]
    if not ys:
        ctx.undecided("R5", "TAINT", f, T_Y, "no yield of a candidate found")
        return
    found = []
    for y in ys:
        yv = src(_inl(f, y.value))
        loc = {x.id for x in ast.walk(y.value) if isinstance(x, ast.Name) and x.id not in params(f.node)}
        for _e, a in _holds_at(ctx, f, fv.stmt_of(y), lambda a: True):
            if _content_uses(a, lambda n: src(n) == yv or (isinstance(n, ast.Name) and n.id in loc)):
                found.append(src(a))
    ctx.ob("R5", "TAINT", f, T_Y, not found, (f"the yield of a ranked n-gram is guarded by `{found[0]}`, a condition on its bytes: a key that fails it is never tried" if found else
           "no condition dominating the yield reads the bytes of the ranked n-gram (only its count)"), ys[0])


def _r5_checksum(ctx, menv):
    """payload_checksum(data) = sum(data[i] * (i % 3 + 1) for all i) mod 99999999, as an accumulation loop (reduced in every
    step or once at the end) or a sum() over a generator; bytes taken by index or through enumerate."""
    p = ctx.repo.func("guardrails.payload_checksum")
    _prep(ctx, p)
    num = _Num(ctx, p, menv)
    T_W, T_I = "checksum weights", "for i in range(len(data))"
    D = params(p.node)[0]

    def iteration(target, it):
        """(index variable, {texts of the byte at that index}, covers every byte from index 0) or None."""
        it = _inl(p, it)
        if isinstance(it, ast.Call) and dotted(it.func) == "range" and isinstance(target, ast.Name):
            rv = it.args
            full = (len(rv) == 1 and src(rv[0]) == f"len({D})") or (len(rv) == 2 and num._iv(rv[0]) == 0 and src(rv[1]) == f"len({D})") \
                or (len(rv) == 3 and num._iv(rv[0]) == 0 and src(rv[1]) == f"len({D})" and num._iv(rv[2]) == 1)
            return target.id, {f"{D}[{target.id}]"}, full
        if isinstance(it, ast.Call) and dotted(it.func) == "enumerate" and isinstance(target, ast.Tuple) and len(target.elts) == 2 \
                and all(isinstance(t, ast.Name) for t in target.elts) and it.args:
            start = it.args[1] if len(it.args) > 1 else next((k.value for k in it.keywords if k.arg == "start"), None)
            full = src(it.args[0]) == D and (start is None or num._iv(start) == 0)
            return target.elts[0].id, {target.elts[1].id, f"{D}[{target.elts[0].id}]"}, full
        return None

    def term_poly(e, I, B, acc=None):
        def subst(x):
            if isinstance(x, ast.BinOp) and isinstance(x.op, ast.BitAnd):
                for a, b in ((x.left, x.right), (x.right, x.left)):
                    if src(a) in B and num._iv(b) == 255:
                        return SymPoly.atom("BYTE")
            if src(x) in B:
                return SymPoly.atom("BYTE")
            if isinstance(x, ast.Call) and dotted(x.func) == "int" and len(x.args) == 1 and src(x.args[0]) in B:
                return SymPoly.atom("BYTE")
            if isinstance(x, ast.BinOp) and isinstance(x.op, ast.Mod) and src(x.left) == I:
                m = num._iv(x.right)
                return SymPoly.atom(f"IMOD{m}")
            if isinstance(x, ast.Subscript) and not isinstance(x.slice, ast.Slice):
                tab = _c(x.value, menv)
                ix = x.slice
                if isinstance(tab, (tuple, list)) and tab and isinstance(ix, ast.BinOp) and isinstance(ix.op, ast.Mod) and src(ix.left) == I and num._iv(ix.right) == len(tab) \
                        and all(isinstance(t, int) for t in tab):
                    if list(tab) == [tab[0] + j for j in range(len(tab))]:
                        return SymPoly.atom(f"IMOD{len(tab)}") + SymPoly.const(tab[0])
                    return SymPoly.atom(f"TABLE{tuple(tab)}[i % {len(tab)}]")
            v = num._iv(x)
            return SymPoly.const(v) if v is not None else None

        return sympoly(_inl(p, e, stop={acc} if acc else ()), subst)

    WANT = SymPoly.atom("BYTE") * SymPoly.atom("IMOD3") + SymPoly.atom("BYTE")
    rets = [s for s in statements(p.node) if isinstance(s, ast.Return)]
    if len(rets) != 1 or rets[0].value is None:
        ctx.undecided("R5", "TABLE", p, T_W, f"{len(rets)} return statements: checksum algorithm not recognised")
        return
    rv = rets[0].value
    loops_ = [s for s in statements(p.node) if isinstance(s, ast.For)]
    found = None  # (iteration, term polynomial or None, modulus, reduced where, init ok)
    if len(loops_) == 1:
        lp = loops_[0]
        itn = iteration(lp.target, lp.iter)
        inner = {id(n) for n in ast.walk(lp)}
        # the accumulator: the returned name (possibly reduced at the return)
        r = rv
        final_mod = None
        r_in = _inl(p, r)
        if isinstance(r_in, ast.BinOp) and isinstance(r_in.op, ast.Mod) and isinstance(r_in.left, ast.Name):
            final_mod, r_in = num._iv(r_in.right), r_in.left
        if isinstance(r_in, ast.Name) and itn is not None:
            N = r_in.id
            I, B, full = itn
            defs = assignments_to(p.node, N)
            init = [num.val(v) if v is not None else None for st, v in defs if id(st) not in inner]
            upd = [(st, v) for st, v in defs if id(st) in inner]
            term = None
            step_mod = None
            recognised = True
            for st, v in upd:
                if isinstance(st, ast.AugAssign) and isinstance(st.op, ast.Add):
                    if term is not None:
                        recognised = False
                    term = term_poly(st.value, I, B, N)
                    recognised = recognised and term is not None
                elif isinstance(st, ast.AugAssign) and isinstance(st.op, ast.Mod):
                    step_mod = num.val(st.value)
                elif isinstance(st, (ast.Assign, ast.AnnAssign)) and v is not None:
                    vi = _inl(p, v, stop={N})
                    if isinstance(vi, ast.BinOp) and isinstance(vi.op, ast.Mod):
                        step_mod = num._iv(vi.right)
                        vi = vi.left
                    pl = term_poly(vi, I, B, N)
                    if pl is None:
                        recognised = False
                    elif pl == SymPoly.atom(N):
                        pass  # n = n % M
                    else:
                        if term is not None:
                            recognised = False
                        term = pl - SymPoly.atom(N)
                else:
                    recognised = False
            if recognised and upd:
                found = (itn, term, step_mod if step_mod is not None else final_mod, init == [0], lp)
    else:
        r_in = _inl(p, rv)
        if isinstance(r_in, ast.BinOp) and isinstance(r_in.op, ast.Mod) and isinstance(r_in.left, ast.Call) and dotted(r_in.left.func) == "sum" and r_in.left.args \
                and isinstance(r_in.left.args[0], (ast.GeneratorExp, ast.ListComp)) and len(r_in.left.args[0].generators) == 1 and not r_in.left.args[0].generators[0].ifs and not loops_:
            ge = r_in.left.args[0]
            itn = iteration(ge.generators[0].target, ge.generators[0].iter)
            start = r_in.left.args[1] if len(r_in.left.args) > 1 else next((k.value for k in r_in.left.keywords if k.arg == "start"), None)
            if itn is not None:
                found = (itn, term_poly(ge.elt, itn[0], itn[1]), num._iv(r_in.right), start is None or num._iv(start) == 0, rets[0])
    if found is None:
        ctx.undecided("R5", "TABLE", p, T_W, "checksum algorithm not recognised (neither an accumulation loop over the indexed bytes nor sum(..) % modulus)")
        return
    (I, B, full), term, modulus, init_ok, where = found
    ok = term == WANT and modulus == CHECKSUM_MODULUS and init_ok
    ctx.ob("R5", "TABLE", p, T_W, bool(ok), f"per byte the checksum adds {term} (required {WANT}, i.e. byte * (i % 3 + 1)); modulus {modulus} (required {CHECKSUM_MODULUS}); starts at 0={init_ok}", where)
    ctx.ob("R5", "AGREE", p, T_I, bool(full), "every byte is weighted by its index (iteration over all of the data from index 0)" if full else "the iteration does not pair every byte of the data with its index from 0", where)


# ================================================================================================================== R6
def _folded_length_facts(ctx, esc):
    """Length fact for the escape analysis (device 6): a module-level container constant that is neither a parameter nor
    assigned in the function has the length of its folded value - also when it is *generated* at import time (see
    _ModEnv; rebound / mutated containers are not folded).  The engine itself knows the length of literal tables and of
    unfiltered comprehensions over them only."""
    orig = esc._min_len

    def _min_len(f, base, st, at=None):
        b = strip_cast(base)
        if isinstance(b, ast.Name) and b.id in f.module.consts and b.id not in params(f.node) and not assignments_to(f.node, b.id):
            v = _c(b, _menv(ctx, f.module))  # the value after all module-level statements (the engine reads the last assignment only)
            if isinstance(v, (list, tuple, bytes, str)):
                fact = f"len({b.id}) == {len(v)} (folded module constant)"
                if fact not in esc.facts_used:
                    esc.facts_used.append(fact)
                return len(v)
        return orig(f, base, st, at=at)

    esc._min_len = _min_len


def r6(ctx):
    esc = effects.Escape(ctx)
    _folded_length_facts(ctx, esc)
    esc = effects.check_escape(ctx, "R6", ["guardrails.iter_guardrail_configs_with_beacon"], {"ValueError"}, esc=esc)
    for fq in ("guardrails.iter_guardrail_configs",):
        f = ctx.repo.func(fq)
        for st in statements(f.node):
            if isinstance(st, ast.While):
                ok, detail, _ = loops.analyse_loop(ctx, f, st)
                ctx.ob("R6", "LOOP", f, f"while {src(st.test)} :: {src(st.body[0])[:40]}", ok, detail, st)
