"""C17 - Guardrails-protected configurations are recovered iff the checksum matches (structural part)."""

from __future__ import annotations

import ast

from csverif import cdefs as cdefs_mod, effects, loops, tables
from csverif.absint import SymPoly, sympoly
from csverif.astutil import assignments_to, body_walk, compare_parts, const_eval, dotted, fn_calls, is_const, kwarg, module_env, NotConst, params, src, statements, strip_cast
from csverif.q import FuncView, dominating_conditions, guarded_by, origin, raise_class


def _c(node, env=None):
    try:
        return const_eval(node, env) if node is not None else None
    except (NotConst, TypeError):
        return None


def run(ctx):
    rep = ctx.rep
    rep.explanation = (
        "Static analysis of guardrails.py and the fallback in BeaconConfig.from_file: the only non-None assignment of "
        "unmasked_beacon_config is dominated by the checksum-equality edge and stores the very value whose checksum was "
        "compared; from_file builds a configuration from a guardrail candidate only under a truthy unmasked config; the "
        "marker table equals the serialisation of (option, type, length) from C_GUARDRAILS_DEF; geometry constants and the "
        "unmasking expression; key-length range and checksum weights; escape set and loop termination of the scan."
    )
    rep.not_decided = ["that recovery succeeds for every key/option combination (n-gram statistics)", "checksum collisions"]
    rep.trusted_base = ["CPython ast", "networkx dominators", "C-definition parser", "escape-analysis trusted base (C08)"]
    mod = ctx.repo.module("guardrails")
    env = module_env(mod)
    r1(ctx)
    r2(ctx)
    r3(ctx, mod, env)
    r4(ctx, mod, env)
    r5(ctx)
    r6(ctx)


def r1(ctx):
    f = ctx.repo.func("guardrails.iter_guardrail_configs_with_beacon")
    stores = [s for s in statements(f.node) if isinstance(s, ast.Assign) and (dotted(s.targets[0]) or "").endswith(".unmasked_beacon_config")]
    ctx.rep.count("unmasked_config_stores", len(stores), floor=1)
    for st in stores:
        val = dotted(st.value)
        g = dotted(st.targets[0]).rsplit(".", 1)[0]
        # a dominating `g.checksum == <name>` where <name> = payload_checksum(<val>) + 1
        ok = False
        detail = "store is not dominated by a checksum comparison"
        for t, pol, n in dominating_conditions(ctx, f, st):
            if not pol:
                continue
            for l, op, r in compare_parts(n):
                if isinstance(op, ast.Eq) and f"{g}.checksum" in (dotted(l), dotted(r)):
                    other = r if dotted(l) == f"{g}.checksum" else l
                    oo = origin(f.node, other)
                    p = sympoly(oo)
                    calls = [c for c in ast.walk(oo) if isinstance(c, ast.Call) and ctx.rs.resolve_call(f, c).fq == "guardrails.payload_checksum"]
                    same = len(calls) == 1 and dotted(calls[0].args[0]) == val
                    plus1 = len(calls) == 1 and p == SymPoly.atom(src(calls[0])) + SymPoly.const(1)
                    ok = same and plus1
                    detail = f"dominated by `{t}`; compared value is payload_checksum({dotted(calls[0].args[0]) if calls else '?'}) + 1={plus1}; the stored value is that same `{val}`={same}"
        ctx.ob("R1", "DOM", f, src(st), ok, detail, st)
    # the key is stored with it
    ks = [s for s in statements(f.node) if isinstance(s, ast.Assign) and (dotted(s.targets[0]) or "").endswith(".payload_xor_key")]
    ok = len(ks) == 1 and stores and ctx.cfg(f).dominates(ctx.cfg(f).node(ks[0]), ctx.cfg(f).node(stores[0])) or (len(ks) == 1 and stores and any(t for t, pol, n in dominating_conditions(ctx, f, ks[0]) if pol and "checksum" in t))
    ctx.ob("R1", "DOM", f, "payload_xor_key stored under the same test", bool(ok), "the environmental key is recorded only for a matching checksum")
    # unguarded = xor(guarded_config, xorkey); guarded = xor(masked_beacon_config, beacon_xor_key)
    UNG = dotted(stores[0].value) if stores else "unguarded"
    un = [v for st, v in assignments_to(f.node, UNG)]
    ok = len(un) == 1 and isinstance(un[0], ast.Call) and ctx.rs.resolve_call(f, un[0]).fq == "utils.xor"
    if ok:
        a0 = origin(f.node, un[0].args[0])
        ok = isinstance(a0, ast.Call) and ctx.rs.resolve_call(f, a0).fq == "utils.xor" and src(a0.args[0]).endswith(".masked_beacon_config") and src(a0.args[1]).endswith(".beacon_xor_key")
        cands = [c for c in fn_calls(f.node) if ctx.rs.resolve_call(f, c).fq == "guardrails.find_xor_key_candidates"]
        ok = ok and len(cands) == 1 and dotted(un[0].args[0]) is not None and dotted(un[0].args[0]) in src(cands[0])
    ctx.ob("R1", "AGREE", f, "unguarded = xor(xor(masked, beacon key), candidate)", bool(ok), "candidate keys are tried on the single-byte-unmasked configuration they were derived from" if ok else "unmasking chain not recognised")
    g = ctx.repo.func("guardrails.iter_guardrail_configs")
    ctor = [c for c in fn_calls(g.node) if dotted(c.func) == "GuardrailMetadata"]
    ok = len(ctor) == 1 and isinstance(kwarg(ctor[0], "unmasked_beacon_config"), ast.Constant) and kwarg(ctor[0], "unmasked_beacon_config").value is None \
        and isinstance(kwarg(ctor[0], "payload_xor_key"), ast.Constant) and kwarg(ctor[0], "payload_xor_key").value is None
    ctx.ob("R1", "AGREE", g, "GuardrailMetadata(unmasked_beacon_config=None, payload_xor_key=None)", ok, "the scan itself never reports an unmasked configuration" if ok else "iter_guardrail_configs pre-fills the unmasked configuration / key")
    # yields: with config only in the matching branch, without otherwise
    ys = [n for n in body_walk(f.node) if isinstance(n, ast.Yield)]
    ctx.ob("R1", "AGREE", f, "yields", len(ys) == 2, f"{len(ys)} yield sites (matching key / no key found)")


def r2(ctx):
    f = ctx.repo.func("beacon.BeaconConfig.from_file")
    builds = [c for c in fn_calls(f.node) if dotted(c.func) == "cls" and c.args and src(c.args[0]).endswith(".unmasked_beacon_config")]
    ctx.rep.count("guardrail_config_constructions", len(builds), floor=1)
    for c in builds:
        g = src(c.args[0]).rsplit(".", 1)[0]
        ok = guarded_by(ctx, f, c, lambda t: True if src(t) == f"{g}.unmasked_beacon_config" else None)
        ctx.ob("R2", "DOM", f, src(c), ok, "a configuration is built from a guardrail candidate only when its unmasked config is truthy" if ok else "guardrail candidate used without testing its unmasked config", c)
        fv = FuncView.of(f.node)
        st = fv.stmt_of(c)
        name = dotted(st.targets[0]) if isinstance(st, ast.Assign) else None
        loop = fv.enclosing(c, (ast.For,))
        gs = [s for s in ast.walk(loop) if isinstance(s, ast.Assign) and dotted(s.targets[0]) == f"{name}.guardrails"] if loop else []
        ok = len(gs) == 1 and dotted(gs[0].value) == g
        ctx.ob("R2", "AGREE", f, f"{name}.guardrails = {g}", ok, "the guard metadata attached is the candidate the configuration came from" if ok else "guardrails attribute is not the same candidate")
        it = loop.iter if loop else None
        ok = isinstance(it, ast.Call) and ctx.rs.resolve_call(f, it).fq == "guardrails.iter_guardrail_configs_with_beacon"
        ctx.ob("R2", "AGREE", f, "for grconfig in iter_guardrail_configs_with_beacon(..)", bool(ok), "candidates come from the checksum-validating iterator" if ok else "candidates do not come from iter_guardrail_configs_with_beacon")


def r3(ctx, mod, env):
    cd = ctx.cdefs("guardrails").get("c_guardrails")
    if cd is None:
        ctx.rep.error("anchor vanished: c_guardrails")
        return
    go, st_ = cd.enum("GuardOption").by_name(), cd.enum("SettingsType").by_name()
    ctx.ob("R3", "TABLE", "guardrails.py::C_GUARDRAILS_DEF::enum GuardOption", "members", go == tables.GUARD_OPTIONS, f"GuardOption = {go}")
    s = cd.struct("GuardrailSetting")
    ref = [cdefs_mod.serialise(cd, s, {"option": go.get(o, -1), "type": st_.get(t, -1), "length": ln}) for o, t, ln in tables.GUARD_STARTS]
    got = _c(ctx.repo.const("guardrails.GUARD_CONFIG_STARTS"), env)
    ctx.ob("R3", "TABLE", "guardrails.py::GUARD_CONFIG_STARTS", "table", got == ref and cd.endian == ">", f"marker table {got}; serialisation of USER/COMPUTER/DOMAIN (SHORT,2) and LOCAL_IP (INT,4) from the definition: {ref}")
    f = ctx.repo.func("guardrails.iter_guardrail_configs")
    ctor = [c for c in fn_calls(f.node) if dotted(c.func) == "GuardrailMetadata"]
    CK = dotted(kwarg(ctor[0], "checksum")) if ctor else "checksum"
    cs = [s2 for s2 in statements(f.node) if isinstance(s2, ast.Assign) and dotted(s2.targets[0]) == CK and isinstance(s2.value, ast.Call)]
    ok = False
    if len(cs) == 1:
        cal = ctx.rs.resolve_call(f, cs[0].value)
        be4 = cal.kind == "func" and cal.func.fq == "utils.unpack" and _c(cal.bound.get("size")) == 4 and _c(cal.bound.get("byteorder")) == "big"
        g_ok = guarded_by(ctx, f, cs[0], lambda t: True if any(isinstance(op, ast.Eq) and "GuardOption.GUARD_PAYLOAD_CHECKSUM" in (dotted(l), dotted(r)) for l, op, r in compare_parts(t)) else None)
        ok = be4 and g_ok and src(cs[0].value.args[0]).endswith(".value")
    ctx.ob("R3", "AGREE", f, "checksum = u32be(setting.value)", ok, "the stored checksum is the 4-byte big-endian value of the GUARD_PAYLOAD_CHECKSUM setting" if ok else "checksum extraction not recognised")


def _xpoly(f, e, depth=0):
    """SymPoly of e with single-definition locals expanded (module constants stay atoms)."""
    def subst(x):
        if depth > 6:
            return None
        if isinstance(x, ast.Name) and x.id not in params(f.node):
            defs = [v for st, v in assignments_to(f.node, x.id)]
            if len(defs) == 1 and defs[0] is not None and not isinstance(defs[0], ast.Call):
                return _xpoly(f, defs[0], depth + 1)
        return None
    return sympoly(e, subst)


def r4(ctx, mod, env):
    from csverif.astutil import pmatch

    f = ctx.repo.func("guardrails.iter_guardrail_configs")
    bs, gs = _c(ctx.repo.const("guardrails.BEACON_CONFIG_PATCH_SIZE"), env), _c(ctx.repo.const("guardrails.GUARD_PATCH_SIZE"), env)
    ctx.ob("R4", "TABLE", "guardrails.py::constants", "patch sizes", (bs, gs) == (6144, 2048), f"BEACON_CONFIG_PATCH_SIZE={bs} GUARD_PATCH_SIZE={gs} (6144 / 2048)")
    starts = _c(ctx.repo.const("guardrails.GUARD_CONFIG_STARTS"), env) or [b""]
    mlen = len(starts[0])
    fh, xk = params(f.node)[0], params(f.node)[1]
    fv = FuncView.of(f.node)
    ops = sorted([c for c in fn_calls(f.node) if isinstance(c.func, ast.Attribute) and c.func.attr in ("seek", "read") and dotted(c.func.value) == fh], key=lambda c: (c.lineno, c.col_offset))
    kinds = [c.func.attr for c in ops]
    if kinds != ["seek", "read", "seek", "read", "read"]:
        ctx.ob("R4", "CURSOR", f, "read sequence", False, f"file operations in order: {[src(c) for c in ops]}; required seek(offset), read(2*marker), seek(beacon offset), read(beacon patch), read(guard patch)")
        return
    s0, r0, s1, r1, r2 = ops

    def var_of(call):
        st = fv.stmt_of(call)
        return dotted(st.targets[0]) if isinstance(st, ast.Assign) and st.value is call else None

    OFF = dotted(s0.args[0])
    m = pmatch("$s * 2", r0.args[0]) or pmatch("2 * $s", r0.args[0])
    SIZE = m["s"] if m else None
    BLOCK, MB, MG = var_of(r0), var_of(r1), var_of(r2)
    seq_ok = OFF is not None and SIZE is not None and dotted(r1.args[0]) == "BEACON_CONFIG_PATCH_SIZE" and dotted(r2.args[0]) == "GUARD_PATCH_SIZE" and all((BLOCK, MB, MG))
    ctx.ob("R4", "CURSOR", f, "read sequence", bool(seq_ok), f"seek(<offset>), read(2 * <marker length>), seek(<beacon offset>), read(BEACON_CONFIG_PATCH_SIZE), read(GUARD_PATCH_SIZE): {[src(c) for c in ops]}")
    ctx.ob("R4", "AGREE", f, "masked blocks", bool(MB and MG), "beacon block then guard block are read back to back")
    # marker length: SIZE = len(XS[0]) with XS = [xor(x, xorkey) for x in GUARD_CONFIG_STARTS]
    sd = [v for st, v in assignments_to(f.node, SIZE)] if SIZE else []
    m = pmatch("len($xs[0])", sd[0]) if len(sd) == 1 else None
    XS = m["xs"] if m else None
    xd = [v for st, v in assignments_to(f.node, XS)] if XS else []
    xs_ok = len(xd) == 1 and pmatch("[xor($x, $k) for $x in GUARD_CONFIG_STARTS]", xd[0], {"k": xk}) is not None
    ctx.ob("R4", "AGREE", f, "marker length", bool(xs_ok) and all(len(x) == mlen for x in starts), f"marker length = len of the masked marker = {mlen}; masked markers are [xor(start, xorkey) for start in GUARD_CONFIG_STARTS]={bool(xs_ok)}")
    # geometry through the metadata constructor
    ctor = [c for c in fn_calls(f.node) if dotted(c.func) == "GuardrailMetadata"]
    gco = kwarg(ctor[0], "guard_config_offset") if ctor else None
    bco = kwarg(ctor[0], "beacon_config_offset") if ctor else None
    gp = _xpoly(f, gco) if gco is not None else None
    want_g = (SymPoly.atom(OFF) + SymPoly.const(mlen), SymPoly.atom(OFF) + SymPoly.atom(f"len({XS}[0])"))
    ctx.ob("R4", "AGREE", f, "guard_config_offset = offset + 6", gp in want_g, f"reported guard config offset is {gp}; required <offset> + marker length ({mlen})")
    bp = _xpoly(f, bco) if bco is not None else None
    ok = gp is not None and bp == gp - SymPoly.atom("BEACON_CONFIG_PATCH_SIZE") and _xpoly(f, s1.args[0]) == bp
    ctx.ob("R4", "AGREE", f, "beacon_config_offset", bool(ok), f"reported beacon config offset is {bp}; required guard offset - BEACON_CONFIG_PATCH_SIZE, and the file is read there")
    u = kwarg(ctor[0], "unmasked_guard_config") if ctor else None
    from csverif.q import inline as _inl
    uo = None
    if u is not None:
        uo = origin(f.node, u)
        # inline temporaries but keep the three role variables as names
        class _K(ast.NodeTransformer):
            def visit_Name(self, node):
                if node.id in (MG, MB, xk):
                    return node
                o = origin(f.node, node)
                return self.visit(o) if o is not node and isinstance(o, ast.expr) and not isinstance(o, ast.Name) else node
        import copy as _copy
        uo = _K().visit(_copy.deepcopy(uo))
    ok = uo is not None and (pmatch("xor(xor($mg, $mb[::-1]), $k)", uo, {"mg": MG, "mb": MB, "k": xk}) is not None or pmatch("xor(xor($mg, $k), $mb[::-1])", uo, {"mg": MG, "mb": MB, "k": xk}) is not None)
    ctx.ob("R4", "AGREE", f, "unmasked_guard_config", bool(ok), f"guard config is unmasked with the REVERSED masked beacon config and the single-byte key: {src(uo)}")
    tests = [n for n in body_walk(f.node) if isinstance(n, ast.Compare) and isinstance(n.ops[0], ast.In) and dotted(n.comparators[0]) == XS]
    ok = False
    if len(tests) == 1:
        m = pmatch("xor($a[::-1], $b)", tests[0].left) or pmatch("xor($b, $a[::-1])", tests[0].left)
        if m:
            ab = [s2 for s2 in statements(f.node) if isinstance(s2, ast.Assign) and isinstance(s2.targets[0], ast.Tuple) and [dotted(t) for t in s2.targets[0].elts] == [m["a"], m["b"]]]
            ok = len(ab) == 1 and pmatch("($blk[:$s], $blk[$s:])", ab[0].value, {"blk": BLOCK, "s": SIZE}) is not None
    ctx.ob("R4", "AGREE", f, "marker test", bool(ok), "marker = reversed first half XOR second half of a 2*size window, looked up in the masked starts" if ok else "marker test not recognised")
    w = [s2 for s2 in statements(f.node) if isinstance(s2, ast.While)]
    ok = bool(w) and loops.analyse_loop(ctx, f, w[0])[0]
    ctx.ob("R4", "LOOP", f, "every offset tested", bool(ok) and any(isinstance(s2, ast.AugAssign) and dotted(s2.target) == OFF and _c(s2.value) == 1 for s2 in statements(f.node)), "the scan advances one byte at a time and ends at end of file")


def r5(ctx):
    f = ctx.repo.func("guardrails.find_xor_key_candidates")
    rg = [c for c in fn_calls(f.node) if dotted(c.func) == "range"]
    ok = len(rg) == 1 and [_c(a) for a in rg[0].args] == [2, 257]
    ctx.ob("R5", "TABLE", f, "range(2, 257)", ok, f"key lengths tried: range({', '.join(src(a) for a in rg[0].args) if rg else '?'}) (2..256)")
    gr = [c for c in fn_calls(f.node) if ctx.rs.resolve_call(f, c).fq == "utils.grouper"]
    klv = [dotted(s2.target) for s2 in statements(f.node) if isinstance(s2, ast.For) and isinstance(s2.iter, ast.Call) and dotted(s2.iter.func) == "range"]
    ok = len(gr) == 1 and bool(klv) and dotted(kwarg(gr[0], "n") or (gr[0].args[1] if len(gr[0].args) > 1 else None)) == klv[0]
    ctx.ob("R5", "AGREE", f, "grouper(chunk, n=keylen)", ok, "n-grams of the key length are counted")
    # n-grams are cut per chunk, so the grouping restarts at every chunk boundary: for key lengths that do not divide the
    # chunk size later chunks count a *rotated* key. The whole protected area (BEACON_CONFIG_PATCH_SIZE bytes) must
    # therefore arrive as one chunk: read size >= area size (or an unbounded read).
    menv = module_env(ctx.repo.module("guardrails"))

    def size_of(e):
        if e is None:
            return -1
        if dotted(e) in ("io.DEFAULT_BUFFER_SIZE", "DEFAULT_BUFFER_SIZE"):
            return 8192
        return _c(e, menv)

    area = _c(ast.Name(id="BEACON_CONFIG_PATCH_SIZE", ctx=ast.Load()), menv)
    fh = params(f.node)[0]
    sizes = []
    for c in fn_calls(f.node):
        if dotted(c.func) == f"{fh}.read":
            sizes.append((c, size_of(c.args[0] if c.args else None)))
        elif dotted(c.func) in ("functools.partial", "partial") and c.args and dotted(c.args[0]) == f"{fh}.read":
            sizes.append((c, size_of(c.args[1] if len(c.args) > 1 else None)))
    ok = bool(sizes) and area is not None and all(s is not None and (s < 0 or s >= area) for _c2, s in sizes)
    ctx.ob("R5", "ABS", f, "one chunk covers the protected area", ok,
           f"read sizes {[s for _c2, s in sizes]} vs area {area} bytes (io.DEFAULT_BUFFER_SIZE taken as 8192)" + ("" if ok else ": n-gram phase is lost at a chunk boundary inside the area"),
           sizes[0][0] if sizes else f.node)
    mc = [c for c in fn_calls(f.node) if isinstance(c.func, ast.Attribute) and c.func.attr == "most_common"]
    ctx.ob("R5", "AGREE", f, "most_common(2)", len(mc) == 1 and _c(mc[0].args[0]) == 2, "the two most common n-grams are candidates")
    p = ctx.repo.func("guardrails.payload_checksum")
    aug = [s for s in statements(p.node) if isinstance(s, ast.Assign) and isinstance(s.value, ast.BinOp) and isinstance(s.value.op, ast.Mod)]
    ok = False
    detail = "checksum update not recognised"
    if len(aug) == 1 and isinstance(aug[0].value.op, ast.Mod):
        from csverif.astutil import pmatch
        mod_c = _c(aug[0].value.right)
        inner = aug[0].value.left
        txt = src(inner)
        d0 = params(p.node)[0]
        pats = ("$n + ($d[$i] & 255) * ($i % 3 + 1)", "$n + $d[$i] * ($i % 3 + 1)", "$n + ($i % 3 + 1) * ($d[$i] & 255)")
        ok = mod_c == 99999999 and any(pmatch(pt, inner, {"d": d0}) is not None for pt in pats)
        detail = f"n = ({txt}) % {mod_c}; required (n + byte * (i % 3 + 1)) % 99999999"
    ctx.ob("R5", "TABLE", p, "checksum weights", ok, detail)
    lp = [s for s in statements(p.node) if isinstance(s, ast.For)]
    ok = len(lp) == 1 and src(lp[0].iter) == f"range(len({params(p.node)[0]}))"
    ctx.ob("R5", "AGREE", p, "for i in range(len(data))", ok, "every byte is weighted by its index")


def r6(ctx):
    esc = effects.check_escape(ctx, "R6", ["guardrails.iter_guardrail_configs_with_beacon"], {"ValueError"})
    for fq in ("guardrails.iter_guardrail_configs",):
        f = ctx.repo.func(fq)
        for st in statements(f.node):
            if isinstance(st, ast.While):
                ok, detail, _ = loops.analyse_loop(ctx, f, st)
                ctx.ob("R6", "LOOP", f, f"while {src(st.test)} :: {src(st.body[0])[:40]}", ok, detail, st)
