"""C20 - Byte-level codecs and stager URI classification are exact (decidable part).

All rules work on *path terms*: `_paths(fn)` enumerates the paths of a (small) function symbolically - every local is
substituted by its defining expression over the parameters (flow-sensitive, so rebinding, temporaries, renamed locals,
extracted-and-inlined helpers, flags, early returns vs if/else and De-Morgan variants of tests are invisible), tests are
split at `and`/`or`/`not`, loops are executed once over havoc'd loop-carried symbols (list-building loops are summarised
as a fold).  A rule then locates its subject *by role* in the terms ("the length argument of the to_bytes that is
returned", "the classifier call a returned URI passed") and decides the arithmetic side conditions (lengths, tiling
factors, nibble expressions, admitted argument ranges) by exhaustive evaluation over a small finite domain with a
checker-internal evaluator of pure expressions (`_ev`; nothing of /repo is imported or executed).

Verdicts: subject located and condition holds -> discharged; located and the condition fails -> violated; the terms
contain something the rule cannot model -> undecided.
"""

from __future__ import annotations

import ast
import copy
import itertools
import re

from csverif.astutil import const_eval, dotted, NotConst, param_defaults, params, src


def _c(node):
    try:
        return const_eval(node) if node is not None else None
    except (NotConst, TypeError):
        return None


# ===================================================================================================== pure evaluator
class _NoEval(Exception):
    """The expression is outside the modelled pure subset (nothing is known)."""


class _Raises(_NoEval):
    """The expression is modelled and its evaluation raises at this point of the domain."""


_BIN = {
    ast.Add: lambda a, b: a + b, ast.Sub: lambda a, b: a - b, ast.Mult: lambda a, b: a * b, ast.FloorDiv: lambda a, b: a // b,
    ast.Mod: lambda a, b: a % b, ast.BitOr: lambda a, b: a | b, ast.BitAnd: lambda a, b: a & b, ast.BitXor: lambda a, b: a ^ b,
    ast.LShift: lambda a, b: a << b, ast.RShift: lambda a, b: a >> b, ast.Div: lambda a, b: a / b,
}
_CMP = {
    ast.Eq: lambda a, b: a == b, ast.NotEq: lambda a, b: a != b, ast.Lt: lambda a, b: a < b, ast.LtE: lambda a, b: a <= b,
    ast.Gt: lambda a, b: a > b, ast.GtE: lambda a, b: a >= b, ast.Is: lambda a, b: a is b, ast.IsNot: lambda a, b: a is not b,
    ast.In: lambda a, b: a in b, ast.NotIn: lambda a, b: a not in b,
}
_SEQ = (bytes, bytearray, str, list, tuple, range)
_BIG = 1 << 16


def _ceil(x):
    import math

    return math.ceil(x)


_FUNCS = {
    "len": len, "min": min, "max": max, "abs": abs, "int": int, "bool": bool, "divmod": divmod, "range": range, "sum": sum,
    "bytes": bytes, "bytearray": bytearray, "list": list, "tuple": tuple, "any": any, "all": all, "ord": ord, "chr": chr,
    "set": set, "frozenset": frozenset, "sorted": sorted, "reversed": lambda x: list(reversed(x)), "enumerate": lambda x, start=0: list(enumerate(x, start)),
    "zip": lambda *a: list(zip(*a)), "math.ceil": _ceil, "ceil": _ceil, "memoryview": bytes, "str": str,
}
_METHODS = {"bit_length": (int,), "count": (bytes, bytearray, str, list, tuple), "strip": (bytes, bytearray, str), "lstrip": (bytes, bytearray, str),
            "rstrip": (bytes, bytearray, str), "startswith": (bytes, bytearray, str), "endswith": (bytes, bytearray, str), "replace": (bytes, bytearray, str),
            "isalnum": (str,), "isascii": (str, bytes), "upper": (str, bytes), "lower": (str, bytes), "index": (bytes, bytearray, str, list, tuple),
            "find": (bytes, bytearray, str)}


def _ev(e, env=None):
    """Value of a pure expression over `env` (name -> Python value).  Raises _NoEval outside the modelled subset and
    _Raises when the modelled evaluation itself raises."""
    env = env or {}
    try:
        return _ev1(e, env)
    except _NoEval:
        raise
    except (ZeroDivisionError, IndexError, KeyError, TypeError, ValueError, OverflowError, AttributeError) as x:
        raise _Raises(f"{type(x).__name__}: {x}")
    except (RecursionError, MemoryError):
        raise _NoEval("too large")


def _ev1(e, env):
    if isinstance(e, ast.Constant):
        return e.value
    if isinstance(e, ast.Name):
        if e.id in env:
            return env[e.id]
        raise _NoEval(e.id)
    if isinstance(e, (ast.Tuple, ast.List, ast.Set)):
        if any(isinstance(x, ast.Starred) for x in e.elts):
            raise _NoEval("starred")
        vals = [_ev1(x, env) for x in e.elts]
        return tuple(vals) if isinstance(e, ast.Tuple) else list(vals) if isinstance(e, ast.List) else set(vals)
    if isinstance(e, ast.UnaryOp):
        v = _ev1(e.operand, env)
        if isinstance(e.op, ast.Not):
            return not v
        if isinstance(e.op, ast.USub):
            return -v
        if isinstance(e.op, ast.UAdd):
            return +v
        return ~v
    if isinstance(e, ast.BinOp):
        if type(e.op) not in _BIN:
            raise _NoEval(src(e))
        a, b = _ev1(e.left, env), _ev1(e.right, env)
        if isinstance(e.op, ast.Mult) and ((isinstance(a, _SEQ) and isinstance(b, int) and b * max(len(a), 1) > _BIG) or (isinstance(b, _SEQ) and isinstance(a, int) and a * max(len(b), 1) > _BIG)):
            raise _NoEval("too large")
        if isinstance(e.op, ast.LShift) and isinstance(b, int) and b > 256:
            raise _NoEval("too large")
        return _BIN[type(e.op)](a, b)
    if isinstance(e, ast.BoolOp):
        v = None
        for x in e.values:
            v = _ev1(x, env)
            if isinstance(e.op, ast.And) and not v:
                return v
            if isinstance(e.op, ast.Or) and v:
                return v
        return v
    if isinstance(e, ast.Compare):
        l = _ev1(e.left, env)
        for op, r in zip(e.ops, e.comparators):
            rv = _ev1(r, env)
            if not _CMP[type(op)](l, rv):
                return False
            l = rv
        return True
    if isinstance(e, ast.IfExp):
        return _ev1(e.body, env) if _ev1(e.test, env) else _ev1(e.orelse, env)
    if isinstance(e, ast.Subscript):
        base = _ev1(e.value, env)
        if not isinstance(base, _SEQ + (dict,)):
            raise _NoEval(src(e))
        if isinstance(e.slice, ast.Slice):
            lo, hi, st = (None if x is None else _ev1(x, env) for x in (e.slice.lower, e.slice.upper, e.slice.step))
            return base[lo:hi:st]
        return base[_ev1(e.slice, env)]
    if isinstance(e, (ast.ListComp, ast.GeneratorExp, ast.SetComp)):
        out = []
        _comp(e.generators, 0, e.elt, dict(env), out)
        return set(out) if isinstance(e, ast.SetComp) else out
    if isinstance(e, ast.Call):
        if any(isinstance(a, ast.Starred) for a in e.args) or any(k.arg is None for k in e.keywords):
            raise _NoEval("starred")
        name = dotted(e.func)
        if name in _FUNCS and name not in env:
            args = [_ev1(a, env) for a in e.args]
            kw = {k.arg: _ev1(k.value, env) for k in e.keywords}
            if name == "range":
                r = range(*args)
                if len(r) > _BIG:
                    raise _NoEval("too large")
                return r
            if name in ("bytes", "bytearray") and args and isinstance(args[0], int) and args[0] > _BIG:
                raise _NoEval("too large")
            if name == "map":
                raise _NoEval("map")
            return _FUNCS[name](*args, **kw)
        if name == "map" and len(e.args) == 2 and dotted(e.args[0]) in ("ord", "int", "abs", "bool"):
            return [_FUNCS[dotted(e.args[0])](x) for x in _ev1(e.args[1], env)]
        if isinstance(e.func, ast.Attribute) and e.func.attr in _METHODS:
            recv = _ev1(e.func.value, env)
            if isinstance(recv, _METHODS[e.func.attr]) and not isinstance(recv, bool):
                args = [_ev1(a, env) for a in e.args]
                return getattr(recv, e.func.attr)(*args)
        raise _NoEval(src(e))
    raise _NoEval(type(e).__name__)


def _comp(gens, i, elt, env, out):
    if i == len(gens):
        out.append(_ev1(elt, env))
        if len(out) > _BIG:
            raise _NoEval("too large")
        return
    g = gens[i]
    if g.is_async:
        raise _NoEval("async")
    for v in _ev1(g.iter, env):
        _bind_target(g.target, v, env)
        if all(_ev1(c, env) for c in g.ifs):
            _comp(gens, i + 1, elt, env, out)


def _bind_target(t, v, env):
    if isinstance(t, ast.Name):
        env[t.id] = v
    elif isinstance(t, (ast.Tuple, ast.List)) and not any(isinstance(x, ast.Starred) for x in t.elts):
        vs = list(v)
        if len(vs) != len(t.elts):
            raise ValueError("unpack")
        for x, y in zip(t.elts, vs):
            _bind_target(x, y, env)
    else:
        raise _NoEval("target")


def _truth(e, env):
    """True / False / None (not evaluable); an evaluation that raises counts as 'raises'."""
    try:
        return bool(_ev(e, env))
    except _Raises:
        return "raises"
    except _NoEval:
        return None


class _Abstract(ast.NodeTransformer):
    """Replace every sub-expression whose text is a key of `binds` by the placeholder name bound to it, so that the
    evaluator can treat e.g. `len(data)`, `n.bit_length()` or a classifier call as one integer/boolean unknown."""

    def __init__(self, binds):
        self.binds = binds

    def visit(self, node):
        if isinstance(node, ast.expr):
            k = self.binds.get(src(node))
            if k is not None:
                return ast.Name(id=k, ctx=ast.Load())
        return super().visit(node)


def _abstract(e, binds):
    return _Abstract(binds).visit(copy.deepcopy(e))


def _names(e):
    return {n.id for n in ast.walk(e) if isinstance(n, ast.Name)}


def _k(e):
    """Structural key of a term; two call nodes are the same value only when they stem from the same evaluation of the
    same call site (`_site` tags set by the path executor)."""
    if isinstance(e, ast.AST):
        return (type(e).__name__, getattr(e, "_site", None)) + tuple(_k(getattr(e, f, None)) for f in e._fields if f != "ctx")
    if isinstance(e, list):
        return tuple(_k(x) for x in e)
    return e


# ===================================================================================================== path executor
class _Unsupported(Exception):
    pass


class _St:
    __slots__ = ("env", "conds", "events", "visited", "end")

    def __init__(self, env=None, conds=None, events=None, visited=None):
        self.env = env if env is not None else {}
        self.conds = conds if conds is not None else []
        self.events = events if events is not None else []
        self.visited = visited if visited is not None else []
        self.end = None

    def fork(self):
        return _St(dict(self.env), list(self.conds), list(self.events), list(self.visited))

    def add(self, conds):
        """Add path conditions; False when they contradict the path so far."""
        for a, pol in conds:
            ka = _k(a)
            for b, p2 in self.conds:
                if _k(b) == ka:
                    if p2 != pol:
                        return False
                    break
            else:
                self.conds.append((a, pol))
        return True


_MUTATORS = {"insert", "pop", "remove", "reverse", "sort", "clear", "update", "add", "discard", "setdefault", "popitem", "appendleft"}


def _target_names(t):
    if isinstance(t, ast.Name):
        return [t.id]
    if isinstance(t, (ast.Tuple, ast.List)):
        return [n for x in t.elts for n in _target_names(x)]
    if isinstance(t, ast.Starred):
        return _target_names(t.value)
    return []


def _assigned(stmts):
    """Local names (re)bound or mutated in place by the statements."""
    out = set()
    for st in stmts:
        for n in ast.walk(st):
            if isinstance(n, ast.Assign):
                for t in n.targets:
                    out.update(_target_names(t))
                    if isinstance(t, ast.Subscript) and isinstance(t.value, ast.Name):
                        out.add(t.value.id)
            elif isinstance(n, (ast.AugAssign, ast.AnnAssign)):
                out.update(_target_names(n.target))
                if isinstance(n.target, ast.Subscript) and isinstance(n.target.value, ast.Name):
                    out.add(n.target.value.id)
            elif isinstance(n, (ast.For, ast.AsyncFor)):
                out.update(_target_names(n.target))
            elif isinstance(n, ast.NamedExpr):
                out.update(_target_names(n.target))
            elif isinstance(n, (ast.With, ast.AsyncWith)):
                for it in n.items:
                    if it.optional_vars is not None:
                        out.update(_target_names(it.optional_vars))
            elif isinstance(n, ast.ExceptHandler) and n.name:
                out.add(n.name)
            elif isinstance(n, ast.Expr) and isinstance(n.value, ast.Call) and isinstance(n.value.func, ast.Attribute) and isinstance(n.value.func.value, ast.Name):
                if n.value.func.attr in _MUTATORS or n.value.func.attr in ("append", "extend"):
                    out.add(n.value.func.value.id)
    return out


class _Loop:
    def __init__(self, stmt, k):
        self.stmt, self.k = stmt, k
        self.pre = {}  # name -> term before the loop
        self.head = {}  # name -> symbol name at the loop head
        self.iter = None  # substituted iterable (for loops)
        self.iters = []  # states at the end of one complete iteration
        self.exits = 0  # break / return / raise paths out of the body


class _Exec:
    MAX = 600

    def __init__(self, fn, preset=None, resolver=None, depth=0):
        self.fn = fn
        self.resolver, self.depth = resolver, depth
        self.preset = dict(preset or {})
        self.sites = itertools.count(1)
        self.syms = itertools.count(1)
        self.loops = {}
        self.locals = _assigned(fn.body) | set(params(fn))

    # ------------------------------------------------------------------ expressions
    def sub(self, e, st):
        ex = self

        class S(ast.NodeTransformer):
            def __init__(self):
                self.shadow = []

            def shadowed(self, n):
                return any(n in s for s in self.shadow)

            def visit_Name(self, n):
                if isinstance(n.ctx, ast.Load) and n.id in st.env and not self.shadowed(n.id):
                    return copy.deepcopy(st.env[n.id])
                return n

            def visit_Call(self, n):
                n._site = next(ex.sites)
                self.generic_visit(n)
                return n

            def visit_NamedExpr(self, n):
                v = self.visit(n.value)
                if isinstance(n.target, ast.Name) and not self.shadowed(n.target.id):
                    st.env[n.target.id] = v
                return v

            def visit_IfExp(self, n):
                self.generic_visit(n)
                t = _truth(n.test, {})
                if t is True:
                    return n.body
                if t is False:
                    return n.orelse
                return n

            def _comp(self, n):
                names = set()
                for g in n.generators:
                    names.update(_target_names(g.target))
                first = n.generators[0]
                first.iter = self.visit(first.iter)
                self.shadow.append(names)
                for i, g in enumerate(n.generators):
                    if i:
                        g.iter = self.visit(g.iter)
                    g.ifs = [self.visit(c) for c in g.ifs]
                if isinstance(n, ast.DictComp):
                    n.key, n.value = self.visit(n.key), self.visit(n.value)
                else:
                    n.elt = self.visit(n.elt)
                self.shadow.pop()
                return n

            visit_ListComp = visit_GeneratorExp = visit_SetComp = visit_DictComp = _comp

            def visit_Lambda(self, n):
                self.shadow.append(set(params(n)))
                n.body = self.visit(n.body)
                self.shadow.pop()
                return n

        return S().visit(copy.deepcopy(e))

    def split(self, t):
        """Decision alternatives of a (substituted) test: [(conditions, outcome)] with short-circuit semantics."""
        if isinstance(t, ast.UnaryOp) and isinstance(t.op, ast.Not):
            return [(c, not o) for c, o in self.split(t.operand)]
        if isinstance(t, ast.BoolOp):
            stop = not isinstance(t.op, ast.And)  # the outcome that short-circuits
            alts = [([], not stop)]
            for v in t.values:
                new = []
                for c, o in alts:
                    if o == stop:
                        new.append((c, o))
                    else:
                        new.extend((c + c2, o2) for c2, o2 in self.split(v))
                alts = new
            return alts
        if isinstance(t, ast.Call) and dotted(t.func) == "bool" and len(t.args) == 1 and not t.keywords:
            return self.split(t.args[0])
        v = _truth(t, {})
        if v in (True, False):
            return [([], v)]
        inl = self.inline_test(t)
        if inl is not None:
            return inl
        return [([(t, True)], True), ([(t, False)], False)]

    def inline_test(self, call):
        """A test that is a call of a small repository helper (`self.resolver(call)` -> (function node, skip-self)):
        the helper's own returning paths, with its parameters bound to the argument terms, replace the opaque call."""
        if self.resolver is None or not isinstance(call, ast.Call) or self.depth >= 3:
            return None
        r = self.resolver(call)
        if r is None:
            return None
        fn, skip = r
        a = fn.args
        if a.vararg or a.kwarg or any(isinstance(x, ast.Starred) for x in call.args) or any(k.arg is None for k in call.keywords):
            return None
        names = [x.arg for x in a.posonlyargs + a.args][(1 if skip else 0):]
        preset = {}
        if len(call.args) > len(names):
            return None
        for n, x in zip(names, call.args):
            preset[n] = x
        for k in call.keywords:
            if k.arg in preset or k.arg not in names + [x.arg for x in a.kwonlyargs]:
                return None
            preset[k.arg] = k.value
        dflt = param_defaults(fn)
        for n in names + [x.arg for x in a.kwonlyargs]:
            if n not in preset:
                if n not in dflt:
                    return None
                preset[n] = dflt[n]
        sub = _Exec(fn, preset, self.resolver, self.depth + 1)
        sub.sites, sub.syms = self.sites, self.syms
        try:
            states = sub.run()
        except (_Unsupported, RecursionError):
            return None
        if sub.loops or not states or any(b.end[0] != "return" or b.end[1] is None for b in states):
            return None
        out = []
        for b in states:
            for c2, o2 in self.split(b.end[1]):
                out.append((list(b.conds) + c2, o2))
        return out if len(out) <= 32 else None

    def values(self, v, st):
        """(state, value) alternatives of an already substituted value: a top-level conditional expression forks."""
        if isinstance(v, ast.IfExp):
            out = []
            for c, o in self.split(v.test):
                s2 = st.fork()
                if s2.add(c):
                    out.extend(self.values(v.body if o else v.orelse, s2))
            return out
        return [(st, v)]

    # ------------------------------------------------------------------ statements
    def bind(self, t, v, st):
        if isinstance(t, ast.Name):
            st.env[t.id] = v
        elif isinstance(t, (ast.Tuple, ast.List)) and not any(isinstance(x, ast.Starred) for x in t.elts):
            if isinstance(v, (ast.Tuple, ast.List)) and len(v.elts) == len(t.elts) and not any(isinstance(x, ast.Starred) for x in v.elts):
                for x, y in zip(t.elts, v.elts):
                    self.bind(x, y, st)
            else:
                for i, x in enumerate(t.elts):
                    self.bind(x, ast.Subscript(value=copy.deepcopy(v), slice=ast.Constant(value=i), ctx=ast.Load()), st)
        elif isinstance(t, ast.Subscript) and isinstance(t.value, ast.Name):
            st.env[t.value.id] = ast.Call(func=ast.Name(id="$mut", ctx=ast.Load()), args=[st.env.get(t.value.id, t.value)], keywords=[])
        else:
            for n in _target_names(t):
                st.env[n] = ast.Name(id=f"{n}@{next(self.syms)}", ctx=ast.Load())

    def block(self, stmts, states):
        for s in stmts:
            out = []
            for st in states:
                if st.end is not None:
                    out.append(st)
                else:
                    out.extend(self.stmt(s, st))
            states = out
            if len(states) > self.MAX:
                raise _Unsupported("too many paths")
        return states

    def stmt(self, s, st):
        st.visited.append(s)
        if isinstance(s, (ast.Assign, ast.AnnAssign)):
            if s.value is None:
                return [st]
            out = []
            for s2, v in self.values(self.sub(s.value, st), st):
                s2.events.append((s, v))
                for t in (s.targets if isinstance(s, ast.Assign) else [s.target]):
                    self.bind(t, v, s2)
                out.append(s2)
            return out
        if isinstance(s, ast.AugAssign):
            v = self.sub(s.value, st)
            st.events.append((s, v))
            if isinstance(s.target, ast.Name):
                cur = st.env.get(s.target.id, ast.Name(id=s.target.id, ctx=ast.Load()))
                st.env[s.target.id] = ast.BinOp(left=copy.deepcopy(cur), op=s.op, right=v)
            else:
                self.bind(s.target, v, st)
            return [st]
        if isinstance(s, ast.Expr):
            v = self.sub(s.value, st)
            st.events.append((s, v))
            c = s.value
            if isinstance(c, ast.Call) and isinstance(c.func, ast.Attribute) and isinstance(c.func.value, ast.Name) and c.func.value.id in self.locals and isinstance(v, ast.Call):
                n, a = c.func.value.id, c.func.attr
                if a in ("append", "extend") or a in _MUTATORS:
                    st.env[n] = ast.Call(func=ast.Name(id="$" + (a if a in ("append", "extend") else "mut"), ctx=ast.Load()), args=[v.func.value] + list(v.args), keywords=[])
            return [st]
        if isinstance(s, ast.If):
            out = []
            for c, o in self.split(self.sub(s.test, st)):
                s2 = st.fork()
                if s2.add(c):
                    out.extend(self.block(s.body if o else s.orelse, [s2]))
            return out
        if isinstance(s, ast.Return):
            if s.value is None:
                st.end = ("return", None, s)
                return [st]
            out = []
            for s2, v in self.values(self.sub(s.value, st), st):
                s2.events.append((s, v))
                s2.end = ("return", v, s)
                out.append(s2)
            return out
        if isinstance(s, ast.Raise):
            st.end = ("raise", self.sub(s.exc, st) if s.exc is not None else None, s)
            return [st]
        if isinstance(s, ast.Break):
            st.end = ("break", None, s)
            return [st]
        if isinstance(s, ast.Continue):
            st.end = ("continue", None, s)
            return [st]
        if isinstance(s, (ast.Pass, ast.Import, ast.ImportFrom, ast.Global, ast.Nonlocal, ast.Delete)):
            return [st]
        if isinstance(s, ast.Assert):
            out = []
            for c, o in self.split(self.sub(s.test, st)):
                s2 = st.fork()
                if s2.add(c):
                    if not o:
                        s2.end = ("raise", None, s)
                    out.append(s2)
            return out
        if isinstance(s, (ast.FunctionDef, ast.AsyncFunctionDef, ast.ClassDef)):
            st.env[s.name] = ast.Name(id=f"{s.name}@def", ctx=ast.Load())
            return [st]
        if isinstance(s, (ast.While, ast.For)):
            return self.loop(s, st)
        if isinstance(s, ast.Try):
            return self.try_(s, st)
        if isinstance(s, ast.With):
            for it in s.items:
                st.events.append((s, self.sub(it.context_expr, st)))
                if it.optional_vars is not None:
                    for n in _target_names(it.optional_vars):
                        st.env[n] = ast.Name(id=f"{n}@{next(self.syms)}", ctx=ast.Load())
            return self.block(s.body, [st])
        raise _Unsupported(type(s).__name__)

    def loop(self, s, st):
        k = next(self.syms)
        lp = _Loop(s, k)
        self.loops[k] = lp
        names = _assigned(s.body) | (set(_target_names(s.target)) if isinstance(s, ast.For) else set())
        lp.pre = {n: st.env.get(n) for n in names}
        if isinstance(s, ast.For):
            lp.iter = self.sub(s.iter, st)
            st.events.append((s, lp.iter))
        head = st.fork()
        for n in names:
            lp.head[n] = f"{n}@{k}"
            head.env[n] = ast.Name(id=lp.head[n], ctx=ast.Load())
        out = []
        after = []
        if isinstance(s, ast.While):
            alts = self.split(self.sub(s.test, head))
        else:
            alts = [([], True), ([], False)]
        for c, o in alts:
            s2 = head.fork()
            if not s2.add(c):
                continue
            if not o:
                after.extend(self.block(s.orelse, [s2]))
                continue
            for b in self.block(s.body, [s2]):
                if b.end is None or b.end[0] == "continue":
                    b.end = None
                    lp.iters.append(b)
                elif b.end[0] == "break":
                    b.end = None
                    lp.exits += 1
                    after.append(b)
                else:
                    lp.exits += 1
                    out.append(b)
        return out + after

    def try_(self, s, st):
        names = _assigned(s.body)
        out = []
        for b in self.block(s.body, [st.fork()]):
            if b.end is None:
                out.extend(self.block(s.orelse, [b]))
            else:
                out.append(b)
        for h in s.handlers:
            hs = st.fork()
            hs.visited.extend(x for b in s.body for x in ast.walk(b) if isinstance(x, ast.stmt))
            k = next(self.syms)
            for n in names:
                hs.env[n] = ast.Name(id=f"{n}@{k}", ctx=ast.Load())
            if h.name:
                hs.env[h.name] = ast.Name(id=f"{h.name}@{k}", ctx=ast.Load())
            hs.conds.append((ast.Name(id=f"$except@{k}", ctx=ast.Load()), True))
            out.extend(self.block(h.body, [hs]))
        res = []
        for b in out:
            if b.end is None and s.finalbody:
                res.extend(self.block(s.finalbody, [b]))
            else:
                res.append(b)
        return res

    def run(self):
        st = _St(dict(self.preset))
        states = self.block(self.fn.body, [st])
        for b in states:
            if b.end is None:
                b.end = ("fall", None, None)
        return states


def _paths(fn, preset=None, resolver=None):
    ex = _Exec(fn, preset, resolver)
    return ex, ex.run()


def _helper_resolver(ctx, f, keep):
    """Resolver for `_Exec.inline_test`: calls of repository functions/methods (resolved from f's module, `self.m(..)`
    through f's class) other than the ones in `keep`, which the rules want to see as atoms."""

    def resolve(call):
        d = dotted(call.func)
        if d is None:
            return None
        skip = False
        sym = None
        if d.startswith("self.") and f.cls and d.count(".") == 1:
            sym = ctx.rs.lookup_dotted(f.module.name, f"{f.cls}.{d[5:]}")
            skip = True
        elif d.split(".")[0] not in ("self", "cls"):
            sym = ctx.rs.lookup_dotted(f.module.name, d)
        if sym is None or sym.kind != "func" or sym.fq in keep or any(sym.fq.startswith(k + ".") for k in keep):
            return None
        m = ctx.repo.modules.get(sym.module)
        g = m.funcs.get(sym.name) if m else None
        if g is None or g.node is f.node or not isinstance(g.node, ast.FunctionDef):
            return None
        if any(isinstance(x, ast.Name) and x.id in ("staticmethod", "classmethod", "property") for x in g.node.decorator_list):
            return None
        if skip is False and g.cls:
            return None
        if sum(1 for _ in ast.walk(g.node)) > 400:
            return None
        return g.node, skip

    return resolve


# ===================================================================================================== shared helpers
_VIEWS = ("bytes", "bytearray", "memoryview", "list", "tuple")


def _strip_view(e):
    """bytes(x) / bytearray(x) / memoryview(x) / list(x) / tuple(x): the same sequence of byte values as x."""
    while isinstance(e, ast.Call) and dotted(e.func) in _VIEWS and len(e.args) == 1 and not e.keywords:
        e = e.args[0]
    return e


def _unview(e, names):
    """A copy of the term in which value-preserving views of the named parameters (bytes(p), bytearray(p), ..) are
    replaced by the parameter itself."""

    class V(ast.NodeTransformer):
        def visit_Call(self, n):
            self.generic_visit(n)
            if dotted(n.func) in _VIEWS and len(n.args) == 1 and not n.keywords and isinstance(n.args[0], ast.Name) and n.args[0].id in names:
                return n.args[0]
            return n

    return V().visit(copy.deepcopy(e))


def _is_param(e, p):
    return isinstance(e, ast.Name) and e.id == p


def _mentions(e, p):
    return e is not None and any(isinstance(n, ast.Name) and n.id == p for n in ast.walk(e))


def _callargs(call, names, skip=0):
    """Positional/keyword arguments of a call bound to the parameter names of a (builtin) signature; None on surplus."""
    out = {}
    args = list(call.args)[skip:]
    if len(args) > len(names) or any(isinstance(a, ast.Starred) for a in args):
        return None
    for n, a in zip(names, args):
        out[n] = a
    for kw in call.keywords:
        if kw.arg is None or kw.arg not in names or kw.arg in out:
            return None
        out[kw.arg] = kw.value
    return out


def _to_bytes(e):
    """`int.to_bytes(v, length, byteorder, signed=..)` / `v.to_bytes(length, byteorder, signed=..)` -> dict or None."""
    if not (isinstance(e, ast.Call) and isinstance(e.func, ast.Attribute) and e.func.attr == "to_bytes"):
        return None
    if dotted(e.func.value) == "int":
        if not e.args:
            return None
        b = _callargs(e, ["length", "byteorder", "signed"], skip=1)
        v = e.args[0]
    else:
        b = _callargs(e, ["length", "byteorder", "signed"])
        v = e.func.value
    if b is None:
        return None
    return {"value": v, "length": b.get("length", ast.Constant(value=1)), "byteorder": b.get("byteorder", ast.Constant(value="big")), "signed": b.get("signed", ast.Constant(value=False))}


def _from_bytes(e):
    if not (isinstance(e, ast.Call) and dotted(e.func) == "int.from_bytes" and e.args):
        return None
    b = _callargs(e, ["bytes", "byteorder", "signed"])
    if b is None or "bytes" not in b:
        return None
    return {"bytes": b["bytes"], "byteorder": b.get("byteorder", ast.Constant(value="big")), "signed": b.get("signed", ast.Constant(value=False))}


_HARMLESS = {"len", "startswith", "endswith", "decode", "encode", "lower", "upper", "strip", "lstrip", "rstrip", "isalnum", "isascii", "isalpha", "isdigit",
             "find", "rfind", "index", "count", "bool", "str", "bytes", "int", "ord", "isinstance", "get", "split", "partition", "rpartition"}


def _could_classify(a):
    """Can the condition possibly embody a stager classification of its argument?  Only when it calls something other
    than builtin string predicates/accessors (whose result cannot depend on a checksum)."""
    for n in ast.walk(a):
        if isinstance(n, ast.Call):
            last = n.func.attr if isinstance(n.func, ast.Attribute) else dotted(n.func)
            if last not in _HARMLESS:
                return True
    return False


def _cond_text(conds):
    return [("" if pol else "not ") + src(a) for a, pol in conds]


def _feasible(st, env, about=()):
    """Are the path conditions of `st` consistent with the valuation `env`?  -> (feasible, unknown conditions that
    mention one of the names in `about`)."""
    unknown = []
    for a, pol in st.conds:
        t = _truth(a, env)
        if t is None:
            if any(_mentions(a, p) for p in about):
                unknown.append(a)
            continue
        if t == "raises":
            return False, unknown
        if t != pol:
            return False, unknown
    return True, unknown


# ===================================================================================================== run
def run(ctx):
    rep = ctx.rep
    rep.explanation = (
        "Static analysis of utils.py and pcap.find_staged_beacon on symbolic path terms (locals substituted by their definitions over "
        "the parameters, tests split at and/or/not): xor() returns its input on exactly the paths an empty key takes and never for a "
        "key with a non-zero byte, otherwise int.to_bytes(from_bytes(data) ^ from_bytes(keystream), len(data), ..) with one byte order "
        "and a keystream that is the key repeated and cut to len(data) (lengths and tiling factor decided exhaustively over small "
        "lengths); the pack/unpack partials are compared completely with the widths/byte orders their names promise and pack/unpack "
        "pass byteorder/signed through; checksum8 and the classifier constants/regular language are decided over the finite checksum "
        "domain and probe strings; a generated stager URI is returned only on the true edge of its own classifier applied to that very "
        "value; the staged beacon extraction is reachable with a known request only on paths with a positive stager test of the "
        "request URI; the NetBIOS decoder applied to the encoder's two symbols gives back every byte for every probed offset."
    )
    rep.not_decided = ["self-inverse / inverse laws over all inputs (only the structural conditions and bounded arithmetic)", "odd-length NetBIOS input", "width limits of pack()"]
    rep.trusted_base = ["CPython ast", "int.from_bytes / to_bytes semantics", "CPython re (for the x64 URI pattern only)", "checker-internal evaluator of pure expressions"]
    from csverif import AnalysisError

    for rule, fn, anchor in (("R1", r1, "utils.py::xor"), ("R2", r2, "utils.py::pack/unpack"), ("R3", r3, "utils.py::checksum8"), ("R4", r4, "utils.py::random_stager_uri"),
                             ("R5", r5, "pcap.py::BeaconCapture.find_staged_beacon"), ("R6", r6, "utils.py::netbios")):
        try:
            fn(ctx)
        except AnalysisError:
            raise
        except Exception as e:  # a shape the rule did not anticipate: nothing is claimed about it
            ctx.undecided(rule, "ABS", anchor, "rule evaluation", f"the code has a shape the rule does not model ({type(e).__name__}: {str(e)[:120]})")
            rep.notes.append(f"{rule}: not evaluated ({type(e).__name__}: {str(e)[:200]})")


def _try_paths(ctx, rule, kind, f, text, preset=None, resolver=None):
    try:
        return _paths(f.node, preset, resolver)
    except _Unsupported as e:
        ctx.undecided(rule, kind, f, text, f"the function body uses a construct the path executor does not model ({e})")
        return None, None
    except RecursionError:
        ctx.undecided(rule, kind, f, text, "the function body is too deeply nested for the path executor")
        return None, None


# ===================================================================================================== R1 xor
_KEY_REPS = {
    "E": [b""],
    "Z": [b"\x00", b"\x00\x00\x00"],
    "N": [b"\x01", b"\x00\x05", b"\x07\x00", b"\xff\xff\x03", b"\x80\x80", b"\x00\x00\x09\x00", b"\x02" * 9, b"\x00" * 6 + b"\x01", b"\x01" + b"\x00" * 6,
          b"\x00" * 17 + b"\x40", bytes(range(256))],
}
_DATA_REPS = [b"", b"a", b"\x00\x00", b"abcdef", b"\x01\x02\x03\x04\x05\x06\x07\x08\x09\x0a\x0b"]


def _bpat(n, seed):
    return bytes(((i * seed + 1) % 255) + 1 for i in range(n))


def _xor_elementwise(v, data, key):
    """bytes(a ^ b for a, b in zip(data, cycle(key))) and the two index forms -> True (periodic key, length of data),
    False (located but wrong), None (not this shape)."""
    inner = v
    if isinstance(v, ast.Call) and dotted(v.func) in ("bytes", "bytearray") and len(v.args) == 1 and not v.keywords:
        inner = v.args[0]
    if not (isinstance(inner, (ast.GeneratorExp, ast.ListComp)) and len(inner.generators) == 1 and not inner.generators[0].ifs):
        return None
    g = inner.generators[0]
    elt = inner.elt
    if not (isinstance(elt, ast.BinOp) and isinstance(elt.op, ast.BitXor)):
        return None
    it = g.iter
    tn = _target_names(g.target)
    sides = [elt.left, elt.right]
    if isinstance(it, ast.Call) and dotted(it.func) == "zip" and len(it.args) == 2 and len(tn) == 2 and isinstance(g.target, (ast.Tuple, ast.List)):
        roles = {}
        for name, a in zip(tn, it.args):
            if _is_param(_strip_view(a), data):
                roles[name] = "data"
            elif isinstance(a, ast.Call) and dotted(a.func) in ("cycle", "itertools.cycle") and len(a.args) == 1 and _is_param(_strip_view(a.args[0]), key):
                roles[name] = "key"
        got = sorted(roles.get(dotted(s), "?") for s in sides)
        if "?" in got:
            return None
        return got == ["data", "key"]
    # index forms: the index runs over range(len(data)) / enumerate(data)
    idx = None
    dexp = None
    if isinstance(it, ast.Call) and dotted(it.func) == "range" and len(it.args) == 1 and len(tn) == 1 and src(it.args[0]) == f"len({data})":
        idx = tn[0]
    elif isinstance(it, ast.Call) and dotted(it.func) == "enumerate" and len(it.args) == 1 and len(tn) == 2 and _is_param(_strip_view(it.args[0]), data):
        idx, dexp = tn[0], tn[1]
    if idx is None:
        return None
    d_side = [s for s in sides if (dexp is not None and dotted(s) == dexp) or (isinstance(s, ast.Subscript) and _is_param(s.value, data) and dotted(s.slice) == idx)]
    k_side = [s for s in sides if isinstance(s, ast.Subscript) and _is_param(s.value, key) and not isinstance(s.slice, ast.Slice)]
    if len(d_side) != 1 or len(k_side) != 1 or d_side[0] is k_side[0]:
        return None
    e = _abstract(k_side[0].slice, {f"len({key})": "$n"})
    try:
        return all(_ev(e, {idx: i, "$n": n}) == i % n for n in range(1, 6) for i in range(0, 14))
    except _NoEval:
        return None


def _path_raises(st, env):
    """Does one of the computations on the path raise for this valuation (so the path is left by an exception)?"""
    for _stmt, v in st.events:
        try:
            _ev(v, env)
        except _Raises:
            return True
        except _NoEval:
            continue
    return False


def _is_handler_path(st):
    return any(isinstance(a, ast.Name) and a.id.startswith("$except@") for a, _p in st.conds)


def r1(ctx):
    f = ctx.repo.func("utils.xor")
    ps = params(f.node)
    data, key = ps[0], ps[1]
    ex, states = _try_paths(ctx, "R1", "ABS", f, "return kinds")
    if states is None:
        return
    rets = [s for s in states if s.end[0] == "return"]
    falls = [s for s in states if s.end[0] == "fall"]

    def identity(s):
        return s.end[1] is not None and _is_param(_strip_view(s.end[1]), data)

    ident = [s for s in rets if identity(s)]
    other = [s for s in rets if not identity(s)]
    ctx.ob("R1", "ABS", f, "return kinds", bool(rets) and not falls and all(s.end[1] is not None for s in rets),
           f"{len(ident)} identity return path(s), {len(other)} computed return path(s), {len(falls)} path(s) falling off the end")

    # ---- identity shortcut: exactly the empty key must take it; a key with a non-zero byte must never take it
    bad, unknown = [], []
    for cls in ("E", "Z", "N"):
        for kr in _KEY_REPS[cls]:
            for dr in _DATA_REPS:
                env = {data: dr, key: kr}
                for s in rets:
                    feas, unk = _feasible(s, env, (data, key))
                    if not feas:
                        continue
                    wrong = None
                    if cls == "E" and not identity(s):
                        if dr == b"" and not _path_raises(s, env):
                            continue  # empty data with an empty key: the (empty) computed result is the data
                        if _path_raises(s, env) and any(identity(h) and _is_handler_path(h) and _feasible(h, env)[0] for h in rets):
                            continue  # the division by len(key) raises and an exception handler returns the data
                        wrong = "an empty key reaches the computed result (key repetition divides by len(key))"
                    elif cls == "N" and dr and identity(s):
                        if _is_handler_path(s) and not any(_path_raises(t, env) for t in states if not _is_handler_path(t) and _feasible(t, env)[0]):
                            continue  # an exception handler that nothing enters for this input
                        wrong = f"a key with a non-zero byte ({kr!r}) returns non-empty data unchanged"
                    if wrong:
                        (unknown if unk else bad).append((wrong, _cond_text(s.conds)))
    # an empty key must reach some identity return at all
    if not ident:
        bad.append(("no path returns the data unchanged (empty or all-zero keys are not the identity)", []))
    if bad:
        ctx.ob("R1", "ABS", f, "return data", False, f"identity shortcut: {bad[0][0]}; path conditions {bad[0][1]}; required: taken by every empty key, never by a key with a non-zero byte", ident[0].end[2] if ident else None)
    elif unknown:
        ctx.undecided("R1", "ABS", f, "return data", f"identity shortcut guarded by a test on the key/data the evaluator cannot decide: {unknown[0][1]}")
    else:
        ctx.ob("R1", "ABS", f, "return data", True, f"the unchanged data is returned on exactly the paths empty and all-zero keys take ({[_cond_text(s.conds) for s in ident]}), never for a key with a non-zero byte and non-empty data", ident[0].end[2])

    # ---- computed result
    for s in other:
        v = s.end[1]
        node = s.end[2]
        tb = _to_bytes(v)
        if tb is None:
            el = _xor_elementwise(v, data, key)
            if el is None:
                ctx.undecided("R1", "ABS", f, "return int.to_bytes(.., len(data), ..)", f"computed result `{src(v)[:120]}` is neither int.to_bytes(from_bytes ^ from_bytes, ..) nor an element-wise XOR the rule models", node)
            else:
                ctx.ob("R1", "ABS", f, "return int.to_bytes(.., len(data), ..)", el, "element-wise XOR of every data byte with the key repeated cyclically (one output byte per data byte)" if el else f"element-wise XOR `{src(v)[:120]}` does not pair data[i] with key[i % len(key)]", node)
            continue
        val = tb["value"]
        fbs = [_from_bytes(x) for x in ((val.left, val.right) if isinstance(val, ast.BinOp) and isinstance(val.op, ast.BitXor) else ())]
        if len(fbs) != 2 or any(x is None for x in fbs):
            ctx.undecided("R1", "ABS", f, "return int.to_bytes(.., len(data), ..)", f"the converted value `{src(val)[:120]}` is not int.from_bytes(..) ^ int.from_bytes(..)", node)
            continue
        d_ops = [x for x in fbs if _is_param(_strip_view(x["bytes"]), data)]
        k_ops = [x for x in fbs if x not in d_ops]
        orders = [src(tb["byteorder"])] + [src(x["byteorder"]) for x in fbs]
        signed = [_c(x["signed"]) for x in fbs] + [_c(tb["signed"])]
        ord_ok = len(set(orders)) == 1 and all(x is False for x in signed)
        if len(d_ops) != 1 or len(k_ops) != 1:
            located = any(_mentions(x["bytes"], data) for x in fbs)
            if located and len(d_ops) == 0:
                ctx.ob("R1", "ABS", f, "return int.to_bytes(.., len(data), ..)", False, f"the data operand of the XOR is a transformed copy of the data: {[src(x['bytes'])[:80] for x in fbs]}", node)
            else:
                ctx.undecided("R1", "ABS", f, "return int.to_bytes(.., len(data), ..)", f"cannot tell the data operand from the key operand in {[src(x['bytes'])[:80] for x in fbs]}", node)
            continue
        K, L = k_ops[0]["bytes"], tb["length"]
        len_bad = key_bad = None
        undec = None
        checked = 0
        for slen in range(0, 10):
            for n in range(1, 8):
                env = {data: _bpat(slen, 7), key: _bpat(n, 13)}
                feas, _unk = _feasible(s, env)
                if not feas:
                    continue
                checked += 1
                try:
                    lv = _ev(L, env)
                    if lv != slen and len_bad is None:
                        len_bad = f"len(data)={slen}, len(key)={n}: length argument is {lv}"
                except _Raises as x:
                    len_bad = len_bad or f"len(data)={slen}, len(key)={n}: length argument raises {x}"
                except _NoEval as x:
                    undec = undec or f"length argument `{src(L)[:80]}` not evaluable ({x})"
                try:
                    kv = bytes(_ev(K, env))
                    want = (env[key] * (slen // n + 1))[:slen]
                    if kv != want and key_bad is None:
                        key_bad = f"len(data)={slen}, len(key)={n}: keystream has length {len(kv)}" + ("" if len(kv) != slen else " but is not the key repeated from its first byte")
                except _Raises as x:
                    key_bad = key_bad or f"len(data)={slen}, len(key)={n}: keystream raises {x}"
                except (_NoEval, TypeError, ValueError) as x:
                    undec = undec or f"keystream `{src(K)[:80]}` not evaluable ({x})"
        if checked == 0:
            undec = undec or "no probed length combination takes this path"
        if len_bad or not ord_ok:
            ctx.ob("R1", "ABS", f, "return int.to_bytes(.., len(data), ..)", False,
                   f"result length must be len({data}) ({len_bad or 'ok'}); one unsigned byte order for both from_bytes and to_bytes: {orders}, signed={signed} -> {ord_ok}", node)
        elif undec and "length" in undec:
            ctx.undecided("R1", "ABS", f, "return int.to_bytes(.., len(data), ..)", undec, node)
        else:
            ctx.ob("R1", "ABS", f, "return int.to_bytes(.., len(data), ..)", True, f"result length is len({data}) on all {checked} probed length combinations; value is from_bytes({data}) ^ from_bytes(keystream) with one byte order {orders[0]}", node)
        if key_bad:
            ctx.ob("R1", "ABS", f, "key tiled then cut to size", False, f"the key operand of the XOR must be the key repeated and cut to exactly len({data}) bytes: {key_bad}", node)
        elif undec and "keystream" in undec:
            ctx.undecided("R1", "ABS", f, "key tiled then cut to size", undec, node)
        elif not undec:
            ctx.ob("R1", "ABS", f, "key tiled then cut to size", True, f"the key operand equals (key * ceil)[:len({data})] on all {checked} probed length combinations (len(data) 0..9, len(key) 1..7)", node)


# ===================================================================================================== R2 pack / unpack
def _partial_target(ctx, mod, name, depth=0):
    """Module-level `name` -> (base function name, bound keyword constants) through partial(..) chains, plain aliases and
    one-line wrapper functions/lambdas; None when the definition has another shape."""
    if depth > 6:
        return None
    if name in mod.funcs and name not in mod.consts:
        fn = mod.funcs[name].node
        if name in ("pack", "unpack"):
            return name, {}, []
        try:
            _ex, states = _paths(fn)
        except (_Unsupported, RecursionError):
            return None
        rets = [s for s in states if s.end[0] == "return"]
        if len(rets) != 1 or len(states) != 1:
            return None
        return _wrapper_call(ctx, mod, rets[0].end[1], params(fn), depth)
    val = mod.consts.get(name)
    if val is None:
        return None
    if isinstance(val, ast.Name):
        return _partial_target(ctx, mod, val.id, depth + 1)
    if isinstance(val, ast.Lambda):
        return _wrapper_call(ctx, mod, val.body, params(val), depth)
    if isinstance(val, ast.Call) and dotted(val.func) in ("partial", "functools.partial") and val.args and isinstance(val.args[0], ast.Name):
        base = _partial_target(ctx, mod, val.args[0].id, depth + 1)
        if base is None or len(val.args) > 1 or any(k.arg is None for k in val.keywords):
            return None
        tgt, kws, passed = base
        kws = dict(kws)
        for k in val.keywords:
            kws[k.arg] = k.value
        return tgt, kws, passed
    return None


def _wrapper_call(ctx, mod, v, ps, depth):
    """`lambda data: unpack(data, size=1)` / def wrappers: one positional pass-through argument, keyword constants."""
    if not (isinstance(v, ast.Call) and isinstance(v.func, ast.Name) and len(ps) == 1 and len(v.args) >= 1 and _is_param(v.args[0], ps[0])):
        return None
    base = _partial_target(ctx, mod, v.func.id, depth + 1)
    if base is None or any(k.arg is None for k in v.keywords):
        return None
    tgt, kws, passed = base
    fn = mod.funcs[tgt].node
    names = params(fn)
    kws = dict(kws)
    for n, a in zip(names[1:], v.args[1:]):
        kws[n] = a
    for k in v.keywords:
        kws[k.arg] = k.value
    return tgt, kws, passed


def r2(ctx):
    mod = ctx.repo.module("utils")
    n = 0
    names = sorted(set(mod.consts) | {q for q in mod.funcs if "." not in q})
    pfn = {"pack": ctx.repo.func("utils.pack"), "unpack": ctx.repo.func("utils.unpack")}
    defaults = {k: {p: _c(d) for p, d in param_defaults(v.node).items()} for k, v in pfn.items()}
    for name in names:
        m = re.fullmatch(r"([up])(8|16|32|64)(be)?", name)
        m2 = re.fullmatch(r"(un)?pack_be", name)
        if not m and not m2:
            continue
        if m:
            n += 1
            want_t = "unpack" if m.group(1) == "u" else "pack"
            want_size, want_bo = int(m.group(2)) // 8, "big" if m.group(3) else "little"
        else:
            want_t, want_size, want_bo = ("unpack" if m2.group(1) else "pack"), None, "big"
        where = f"utils.py::{name}"
        r = _partial_target(ctx, mod, name)
        if r is None:
            ctx.undecided("R2", "TABLE", where, "partial", f"{name} is not a partial(..) chain / alias / one-line wrapper over pack or unpack: {src(mod.consts.get(name))[:100] if name in mod.consts else 'def'}", mod.consts.get(name))
            continue
        tgt, kws, _p = r
        eff = dict(defaults.get(tgt, {}))
        unknown = []
        for k, v in kws.items():
            cv = _c(v)
            if cv is None and not (isinstance(v, ast.Constant) and v.value is None):
                unknown.append(k)
            eff[k] = cv
        if unknown:
            ctx.undecided("R2", "TABLE", where, "partial", f"{name}: bound argument(s) {unknown} are not constants", mod.consts.get(name))
            continue
        ok = tgt == want_t and eff.get("size") == want_size and eff.get("byteorder") == want_bo and eff.get("signed") is False and set(kws) <= {"size", "byteorder", "signed"}
        ctx.ob("R2", "TABLE", where, "partial", ok,
               f"{name} = {tgt}(size={eff.get('size')}, byteorder={eff.get('byteorder')!r}, signed={eff.get('signed')}); required {want_t}(size={want_size}, byteorder={want_bo!r}, signed=False)", mod.consts.get(name))
    ctx.rep.count("pack_unpack_partials", n, floor=14)

    # ---- unpack: int.from_bytes(data[:size], byteorder, signed) with the parameters passed through
    u = pfn["unpack"]
    ups = params(u.node)
    ex, states = _try_paths(ctx, "R2", "AGREE", u, "unpack")
    if states is not None:
        d = defaults["unpack"]
        dflt_ok = d.get("byteorder") == "little" and d.get("signed") is False and "size" in d and d.get("size") is None and ups[:1] + sorted(ups[1:]) == ups[:1] + ["byteorder", "signed", "size"]
        verdict, why = True, []
        rets = [s for s in states if s.end[0] == "return"]
        if not rets or any(s.end[0] == "fall" for s in states):
            verdict, why = False, ["a path does not return a value"]
        for s in rets:
            fb = _from_bytes(s.end[1]) if s.end[1] is not None else None
            if fb is None:
                verdict, why = None, why + [f"return value `{src(s.end[1])[:80]}` is not int.from_bytes(..)"]
                continue
            b = fb["bytes"]
            cut_ok = False
            if isinstance(b, ast.Subscript) and isinstance(b.slice, ast.Slice) and _is_param(_strip_view(b.value), ups[0]):
                lo, hi, stp = b.slice.lower, b.slice.upper, b.slice.step
                cut_ok = (lo is None or _c(lo) == 0) and hi is not None and _is_param(hi, "size") and (stp is None or _c(stp) == 1)
            elif _is_param(_strip_view(b), ups[0]):
                # the whole data: only correct on a path where size is None
                cut_ok = any(src(a) == "size is None" and pol or src(a) == "size is not None" and not pol for a, pol in s.conds)
            thru = _is_param(fb["byteorder"], "byteorder") and _is_param(fb["signed"], "signed")
            if not (cut_ok and thru):
                verdict = False if verdict is not None else None
                why.append(f"int.from_bytes({src(b)}, {src(fb['byteorder'])}, signed={src(fb['signed'])})")
        if verdict is None:
            ctx.undecided("R2", "AGREE", u, "unpack", "; ".join(why))
        else:
            ctx.ob("R2", "AGREE", u, "unpack", bool(verdict and dflt_ok), "unpack passes byteorder/signed through to int.from_bytes over data[:size] (defaults little, unsigned)" if verdict and dflt_ok else f"unpack: {why or 'defaults ' + str(d)}")

    # ---- pack: n.to_bytes(size, byteorder, signed); minimal size exactly when size is None
    p = pfn["pack"]
    pps = params(p.node)
    ex, states = _try_paths(ctx, "R2", "AGREE", p, "pack")
    if states is not None:
        d = defaults["pack"]
        dflt_ok = d.get("byteorder") == "little" and d.get("signed") is False and "size" in d and d.get("size") is None and pps[:1] + sorted(pps[1:]) == pps[:1] + ["byteorder", "signed", "size"]
        verdict, why = True, []
        rets = [s for s in states if s.end[0] == "return"]
        if not rets or any(s.end[0] == "fall" for s in states):
            verdict, why = False, ["a path does not return a value"]
        for s in rets:
            tb = _to_bytes(s.end[1]) if s.end[1] is not None else None
            if tb is None:
                verdict, why = None, why + [f"return value `{src(s.end[1])[:80]}` is not <int>.to_bytes(..)"]
                continue
            thru = _is_param(tb["value"], pps[0]) and _is_param(tb["byteorder"], "byteorder") and _is_param(tb["signed"], "signed")
            L = tb["length"]
            # which case of `size` is this path?
            envs = []
            for none in (True, False):
                env0 = {"size": None if none else 3, "$is_none": none}
                feas, _u = _feasible(s, env0)
                if feas:
                    envs.append(none)
            len_ok = True
            for none in envs:
                if not none:
                    if not _is_param(L, "size"):
                        len_ok = False
                        why.append(f"with a given size the length argument is `{src(L)}`")
                else:
                    La = _abstract(L, {f"{pps[0]}.bit_length()": "$b"})
                    try:
                        if not all(_ev(La, {"$b": b, "size": None}) == (b + 7) // 8 for b in range(0, 80)):
                            len_ok = False
                            why.append(f"with size None the length argument `{src(L)}` is not the minimal byte count (bit_length + 7) // 8")
                    except _NoEval as x:
                        if _is_param(L, "size"):
                            len_ok = False
                            why.append("with size None the length argument is None")
                        elif verdict is not False:
                            verdict = None
                            why.append(f"minimal size `{src(L)}` not evaluable ({x})")
            if not envs:
                verdict = None if verdict is not False else False
                why.append(f"path conditions {_cond_text(s.conds)} not decidable for size None / given")
            if not (thru and len_ok):
                verdict = False
                if not thru:
                    why.append(f"{src(tb['value'])}.to_bytes(.., {src(tb['byteorder'])}, signed={src(tb['signed'])})")
        if verdict is None:
            ctx.undecided("R2", "AGREE", p, "pack", "; ".join(why))
        else:
            ctx.ob("R2", "AGREE", p, "pack", bool(verdict and dflt_ok), "pack passes byteorder/signed through to int.to_bytes and sizes minimally only when size is None" if verdict and dflt_ok else f"pack: {why or 'defaults ' + str(d)}")


# ===================================================================================================== R3 checksum8 / classifiers
def _calls_to(ctx, f, e, fq):
    """Call nodes inside term `e` whose callee resolves (from f's module) to the repository function `fq`."""
    out = []
    for n in ast.walk(e):
        if isinstance(n, ast.Call):
            d = dotted(n.func)
            if d is None:
                continue
            s = ctx.rs.lookup_dotted(f.module.name, d)
            if s is not None and s.kind in ("func", "partial") and s.fq == fq:
                out.append(n)
    return out


def _codepoint_sum(e, p):
    """Is `e` the sum of the code points of parameter p without its '/' characters?  True / False (located, wrong) / None."""
    if not (isinstance(e, ast.Call) and dotted(e.func) == "sum" and len(e.args) == 1 and not e.keywords):
        return None
    a = e.args[0]
    filt = False
    if isinstance(a, ast.Call) and dotted(a.func) == "map" and len(a.args) == 2 and dotted(a.args[0]) == "ord":
        t = a.args[1]
    elif isinstance(a, (ast.GeneratorExp, ast.ListComp)) and len(a.generators) == 1 and isinstance(a.generators[0].target, ast.Name):
        g = a.generators[0]
        v = g.target.id
        if not (isinstance(a.elt, ast.Call) and dotted(a.elt.func) == "ord" and len(a.elt.args) == 1 and _is_param(a.elt.args[0], v)):
            return None
        t = g.iter
        for c in g.ifs:
            try:
                if [ch for ch in "/aZ0~" if _ev(c, {v: ch})] == list("aZ0~"):
                    filt = True
                else:
                    return False
            except _NoEval:
                return None
    else:
        return None
    # t: the text, with '/' removed unless filtered above
    if isinstance(t, ast.Call) and isinstance(t.func, ast.Attribute) and t.func.attr == "replace" and _is_param(t.func.value, p):
        args = [_c(x) for x in t.args]
        return args[:2] == ["/", ""] and len(args) == 2
    if isinstance(t, ast.Call) and isinstance(t.func, ast.Attribute) and t.func.attr == "join" and _c(t.func.value) == "" and len(t.args) == 1 \
            and isinstance(t.args[0], ast.Call) and isinstance(t.args[0].func, ast.Attribute) and t.args[0].func.attr == "split" and _is_param(t.args[0].func.value, p):
        return [_c(x) for x in t.args[0].args] == ["/"]
    if _is_param(t, p):
        return filt
    return None if not _mentions(t, p) else None


_PROBE_CHARS = [chr(i) for i in range(0, 0x180)] + ["٠", "é", "Ⅷ", "Ａ", "٣", "²"]


_ALNUM62 = set("ABCDEFGHIJKLMNOPQRSTUVWXYZabcdefghijklmnopqrstuvwxyz0123456789")


def _x64_want(s):
    return len(s) == 5 and s[0] == "/" and all(c in _ALNUM62 for c in s[1:])


def _x64_probes():
    probes = ["", "/", "a", "/a", "/ab", "/abc", "/abcd", "/abcde", "/abcdef", "abcde", "a/bcd", "x/abcd", "//abcd", "/abcd/", "/abcd ", " /abcd", "/ab d", "/0000", "/ZZZZ", "/zzzz", "/a1B2", "/abcd\x00", "//abc", "/abc/"]
    for pos in range(5):
        for ch in _PROBE_CHARS:
            if ch == "\n" and pos == 4:
                continue
            s = list("/a0Zz")
            s[pos] = ch
            probes.append("".join(s))
    return probes


def _x64_language_ok(kind, pattern, flags=0):
    """Does the regular expression, used with re.<kind>, accept exactly '/' + four ASCII alphanumerics?  (A trailing
    newline after `$` is the documented quirk of `$` and is not probed.)"""
    try:
        rx = re.compile(pattern, flags)
    except (re.error, TypeError, ValueError):
        return False, "pattern does not compile"
    fn = getattr(rx, kind)
    want, probes = _x64_want, _x64_probes()
    for s in probes:
        if bool(fn(s)) != want(s):
            return False, f"{s!r} is {'accepted' if fn(s) else 'rejected'}"
    return True, ""


def _re_flags(node):
    """Constant value of a `flags` argument (re.I | re.A ...), 0 when absent, None when not constant."""
    if node is None:
        return 0
    binds, env = {}, {}
    for n in ast.walk(node):
        d = dotted(n)
        if d and d.startswith("re.") and isinstance(getattr(re, d[3:], None), re.RegexFlag):
            binds[d] = "$" + d.replace(".", "_")
            env[binds[d]] = int(getattr(re, d[3:]))
    try:
        v = _ev(_abstract(node, binds), env)
    except _NoEval:
        return None
    return int(v) if isinstance(v, int) else None


def _regex_calls(ctx, f, e, p):
    """Regex membership tests of parameter p inside term e: [(call node, kind, pattern, flags)] (pattern None = unknown)."""
    out = []
    mod = f.module
    for n in ast.walk(e):
        if not (isinstance(n, ast.Call) and isinstance(n.func, ast.Attribute) and n.func.attr in ("match", "fullmatch", "search")):
            continue
        recv = n.func.value
        if dotted(recv) == "re":
            b = _callargs(n, ["pattern", "string", "flags"])
            if b is None or "string" not in b or not _is_param(b["string"], p):
                continue
            out.append((n, n.func.attr, _c(b.get("pattern")), _re_flags(b.get("flags"))))
        else:
            comp = recv
            if isinstance(recv, ast.Name) and recv.id in mod.consts:
                comp = mod.consts[recv.id]
            if isinstance(comp, ast.Call) and dotted(comp.func) == "re.compile":
                b = _callargs(comp, ["pattern", "flags"])
                b2 = _callargs(n, ["string"])
                if b is None or b2 is None or not _is_param(b2.get("string"), p):
                    continue
                out.append((n, n.func.attr, _c(b.get("pattern")), _re_flags(b.get("flags"))))
    return out


def r3(ctx):
    # ---- checksum8: 0 below four characters, else the code point sum without '/' modulo 256
    c8 = ctx.repo.func("utils.checksum8")
    p = params(c8.node)[0]
    ex, states = _try_paths(ctx, "R3", "TABLE", c8, "checksum8")
    if states is not None:
        bad, undec = [], []
        rets = [s for s in states if s.end[0] == "return" and s.end[1] is not None]
        if any(s.end[0] == "fall" or (s.end[0] == "return" and s.end[1] is None) for s in states):
            bad.append("a path returns no value")
        lenkey = f"len({p})"
        for k in range(0, 9):
            took = 0
            for s in rets:
                feas = True
                for a, pol in s.conds:
                    t = _truth(_abstract(a, {lenkey: "$len"}), {"$len": k})
                    if t is None:
                        if _mentions(a, p):
                            # a length test on something derived from the text is a different function
                            derived = [n for n in ast.walk(a) if isinstance(n, ast.Call) and dotted(n.func) == "len" and n.args and not _is_param(n.args[0], p) and _mentions(n.args[0], p)]
                            (bad if derived else undec).append(f"path condition `{src(a)[:80]}`" + (" measures a transformed text" if derived else " not decidable from the text length"))
                        continue
                    if t == "raises" or t != pol:
                        feas = False
                        break
                if not feas:
                    continue
                took += 1
                v = s.end[1]
                if k < 4:
                    t = None
                    try:
                        t = _ev(_abstract(v, {lenkey: "$len"}), {"$len": k})
                    except _NoEval:
                        pass
                    if t is None or isinstance(t, bool) or t != 0:
                        if t is None and not isinstance(v, ast.Constant):
                            # the general formula also applies to short texts
                            bad.append(f"a text of {k} characters does not yield 0 but `{src(v)[:60]}`")
                        else:
                            bad.append(f"a text of {k} characters yields {t!r}, required 0")
                else:
                    m = None
                    if isinstance(v, ast.BinOp) and isinstance(v.op, (ast.Mod, ast.BitAnd)):
                        try:
                            m = _ev(v.right)
                        except _NoEval:
                            m = None
                        cs = _codepoint_sum(v.left, p)
                        good_m = (m == 256) if isinstance(v.op, ast.Mod) else (m == 255)
                        if cs is None or m is None:
                            undec.append(f"checksum expression `{src(v)[:100]}` not recognised as a code point sum")
                        elif not (cs and good_m):
                            bad.append(f"a text of {k} characters yields `{src(v)[:100]}`: sum of the code points without '/'={cs}, reduced modulo 256={good_m}")
                    elif isinstance(v, ast.Constant):
                        bad.append(f"a text of {k} characters yields the constant {v.value!r}")
                    elif _codepoint_sum(v, p) is not None:
                        bad.append(f"the code point sum `{src(v)[:80]}` is not reduced modulo 256")
                    else:
                        undec.append(f"checksum expression `{src(v)[:100]}` not recognised")
            if took == 0 and not undec:
                bad.append(f"no returning path for a text of {k} characters")
        if bad:
            ctx.ob("R3", "TABLE", c8, "checksum8", False, "; ".join(dict.fromkeys(bad))[:400])
        elif undec:
            ctx.undecided("R3", "TABLE", c8, "checksum8", "; ".join(dict.fromkeys(undec))[:400])
        else:
            ctx.ob("R3", "TABLE", c8, "checksum8", True, "0 below four characters; otherwise the sum of the code points of the text without '/' modulo 256 (decided for text lengths 0..8)")

    # ---- classifiers
    for name, const, text in (("is_stager_x86", 92, "x86 <=> checksum8 == 92"), ("is_stager_x64", 93, "x64 <=> checksum8 == 93 and /[A-Za-z0-9]{4}")):
        g = ctx.repo.func("utils." + name)
        u = params(g.node)[0]
        ex, states = _try_paths(ctx, "R3", "TABLE", g, text)
        if states is None:
            continue
        rets = [s for s in states if s.end[0] == "return" and s.end[1] is not None]
        if len(rets) != len(states) or not rets:
            ctx.ob("R3", "TABLE", g, text, False, "a path of the classifier returns no value")
            continue
        bad, undec = [], []
        # unknowns: the checksum of the URI and (x64) the regex verdict
        binds = {}
        rx_ok, rx_why, rx_seen = True, "", 0
        for s in rets:
            for e in [a for a, _p in s.conds] + [s.end[1]]:
                for c in _calls_to(ctx, g, e, "utils.checksum8"):
                    if len(c.args) == 1 and not c.keywords and _is_param(c.args[0], u):
                        binds[src(c)] = "$c8"
                    else:
                        bad.append(f"checksum8 applied to `{src(c.args[0]) if c.args else ''}` instead of the URI")
                for c, kind, pat, fl in _regex_calls(ctx, g, e, u):
                    binds[src(c)] = "$rx"
                    rx_seen += 1
                    if pat is None or fl is None:
                        undec.append("regular expression / flags not constant")
                        continue
                    ok, why = _x64_language_ok(kind, pat, fl)
                    if not ok:
                        rx_ok, rx_why = False, f"re.{kind}({pat!r}): {why}"
        need_rx = name == "is_stager_x64"
        if need_rx and rx_seen and not rx_ok:
            bad.append(f"the pattern does not accept exactly '/' + four ASCII alphanumerics ({rx_why})")
        for c8v in range(256):
            for rxv in ((False, True) if need_rx else (False,)):
                env = {"$c8": c8v, "$rx": (True if rxv else None)}
                got = []
                for s in rets:
                    feas = True
                    for a, pol in s.conds:
                        t = _truth(_abstract(a, binds), env)
                        if t is None:
                            undec.append(f"path condition `{src(a)[:80]}` not decidable")
                        elif t == "raises" or t != pol:
                            feas = False
                            break
                    if feas:
                        got.append(_truth(_abstract(s.end[1], binds), env))
                want = c8v == const and (rxv or not need_rx)
                if any(x is None for x in got):
                    undec.append(f"classifier value `{src(rets[0].end[1])[:100]}` not evaluable")
                elif any(x != want for x in got) and not (need_rx and not rx_seen):
                    bad.append(f"checksum8 == {c8v}" + (f", pattern {'matches' if rxv else 'does not match'}" if need_rx else "") + f": classifier is {got[0]}, required {want}")
                if bad or undec:
                    break
            if bad or undec:
                break
        if need_rx and not rx_seen and not bad:
            # no regular expression: decide the shape test of the URI directly on the probe strings (checksum fixed to 93)
            undec = []
            for probe in _x64_probes():
                env = {"$c8": const, u: probe}
                got = []
                for s in rets:
                    ts = [_truth(_abstract(a, binds), env) for a, _pol in s.conds]
                    if any(t is None for t in ts):
                        got.append(None)
                    elif all(t == pol for t, (_a, pol) in zip(ts, s.conds)):
                        got.append(_truth(_abstract(s.end[1], binds), env))
                if any(x is None for x in got):
                    undec.append("no regular expression test of the URI found and the URI shape test is not evaluable")
                    break
                if any(x != _x64_want(probe) for x in got):
                    bad.append(f"with checksum8 == {const} the URI {probe!r} is {'accepted' if got[0] is True else 'rejected' if got[0] is False else 'an error'}; required: exactly '/' + four ASCII alphanumerics")
                    break
        if bad:
            ctx.ob("R3", "TABLE", g, text, False, "; ".join(dict.fromkeys(bad))[:400])
        elif undec:
            ctx.undecided("R3", "TABLE", g, text, "; ".join(dict.fromkeys(undec))[:400])
        else:
            ctx.ob("R3", "TABLE", g, text, True, f"true exactly when checksum8(uri) == {const}" + (" and the URI is '/' + four ASCII alphanumerics (pattern probed position-wise over 390 characters and lengths 0..7)" if need_rx else "") + " (decided for all 256 checksum values)")


# ===================================================================================================== R4 random_stager_uri
_STRING_CONSTS = {
    "string.ascii_letters": "abcdefghijklmnopqrstuvwxyzABCDEFGHIJKLMNOPQRSTUVWXYZ", "string.ascii_lowercase": "abcdefghijklmnopqrstuvwxyz",
    "string.ascii_uppercase": "ABCDEFGHIJKLMNOPQRSTUVWXYZ", "string.digits": "0123456789", "string.hexdigits": "0123456789abcdefABCDEF",
    "string.octdigits": "01234567", "string.punctuation": "!\"#$%&'()*+,-./:;<=>?@[\\]^_`{|}~", "string.whitespace": " \t\n\r\x0b\x0c",
}
_STRING_CONSTS["string.printable"] = _STRING_CONSTS["string.digits"] + _STRING_CONSTS["string.ascii_letters"] + _STRING_CONSTS["string.punctuation"] + _STRING_CONSTS["string.whitespace"]
_ALNUM = set(_STRING_CONSTS["string.ascii_letters"] + _STRING_CONSTS["string.digits"])


def _alphabet(e, mod=None, depth=0):
    """Characters of an alphabet expression (string module constants, literals, concatenation, module-level constants of
    the analysed module) or None."""
    if mod is not None and depth < 4:
        class C(ast.NodeTransformer):
            stack = []

            def visit_Name(self, n):
                if isinstance(n.ctx, ast.Load) and n.id in mod.consts and n.id not in self.stack and len(self.stack) < 4:
                    self.stack.append(n.id)
                    r = self.visit(copy.deepcopy(mod.consts[n.id]))
                    self.stack.pop()
                    return r
                return n

        e = C().visit(copy.deepcopy(e))
    binds = {}
    for n in ast.walk(e):
        d = dotted(n)
        if d in _STRING_CONSTS:
            binds[d] = "$" + d.replace(".", "_")
        elif d is not None and "string." + d in _STRING_CONSTS and isinstance(n, ast.Name):
            binds[d] = "$string_" + d
    env = {v: _STRING_CONSTS["string." + v[len("$string_"):]] for v in binds.values()}
    try:
        v = _ev(_abstract(e, binds), env)
    except _NoEval:
        return None
    if isinstance(v, (str, list, tuple, set)) and all(isinstance(c, str) and len(c) == 1 for c in v):
        return set(v)
    return None


def _candidate_shape(v, length, mod=None):
    """`'/' + ''.join(random.choice(A) for _ in range(length))` and equivalents -> (prefix ok, count ok, alphabet set|None)
    or None when the term has another shape."""
    parts = []
    if isinstance(v, ast.BinOp) and isinstance(v.op, ast.Add):
        parts = [v.left, v.right]
    elif isinstance(v, ast.JoinedStr) and len(v.values) == 2 and isinstance(v.values[1], ast.FormattedValue) and v.values[1].conversion == -1 and v.values[1].format_spec is None:
        parts = [v.values[0], v.values[1].value]
    if len(parts) != 2:
        return None
    prefix = _c(parts[0])
    body = parts[1]
    if not (isinstance(body, ast.Call) and isinstance(body.func, ast.Attribute) and body.func.attr == "join" and _c(body.func.value) == "" and len(body.args) == 1):
        return None
    a = body.args[0]
    alpha = count = None
    if isinstance(a, (ast.GeneratorExp, ast.ListComp)) and len(a.generators) == 1 and not a.generators[0].ifs:
        g = a.generators[0]
        e = a.elt
        if isinstance(e, ast.Call) and dotted(e.func) in ("random.choice", "choice", "secrets.choice", "random.SystemRandom().choice") and len(e.args) == 1 and not (_names(e.args[0]) & set(_target_names(g.target))):
            alpha = e.args[0]
            count = ast.Call(func=ast.Name(id="len", ctx=ast.Load()), args=[g.iter], keywords=[])
    elif isinstance(a, ast.Call) and dotted(a.func) in ("random.choices", "choices") and a.args:
        b = _callargs(a, ["population", "weights", "cum_weights", "k"])
        if b is not None and "weights" not in b and "cum_weights" not in b:
            alpha, count = b["population"], b.get("k", ast.Constant(value=1))
    elif isinstance(a, ast.Call) and dotted(a.func) in ("random.sample", "sample"):
        return ("/" == prefix, False, None, "random.sample draws without replacement")
    if alpha is None:
        return None
    try:
        cnt_ok = all(_ev(count, {length: k}) == k for k in range(3, 12))
    except _NoEval:
        return None
    return (prefix == "/", cnt_ok, _alphabet(alpha, mod), src(alpha))


def _filtered_next(v):
    """`next(u for u in it if C(u))` / `next(filter(C, it))` -> the callee expression C, else None."""
    if not (isinstance(v, ast.Call) and dotted(v.func) == "next" and len(v.args) == 1 and not v.keywords):
        return None
    g = v.args[0]
    if isinstance(g, ast.GeneratorExp) and len(g.generators) == 1 and isinstance(g.generators[0].target, ast.Name) and _is_param(g.elt, g.generators[0].target.id):
        var = g.generators[0].target.id
        for c in g.generators[0].ifs:
            if isinstance(c, ast.Call) and len(c.args) == 1 and not c.keywords and _is_param(c.args[0], var):
                return c.func
        return None
    if isinstance(g, ast.Call) and dotted(g.func) == "filter" and len(g.args) == 2:
        return g.args[0]
    return None


def r4(ctx):
    f = ctx.repo.func("utils.random_stager_uri")
    ps = params(f.node)
    if "x64" not in ps or "length" not in ps:
        ctx.undecided("R4", "AGREE", f, "return <uri>", f"the generator no longer has the keyword parameters x64 and length: {ps}")
        return
    want = {True: "utils.is_stager_x64", False: "utils.is_stager_x86"}
    cls = set(want.values())
    sel_bad, dom_bad, dom_und, pre_bad, shape = [], [], [], [], {}
    nret = 0
    for x64 in (True, False):
        ex, states = _try_paths(ctx, "R4", "DOM", f, "return <uri>", preset={"x64": ast.Constant(value=x64)}, resolver=_helper_resolver(ctx, f, cls | {"utils.checksum8"}))
        if states is None:
            return
        rets = [s for s in states if s.end[0] == "return"]
        if any(s.end[0] == "fall" for s in states):
            dom_bad.append(f"x64={x64}: a path leaves the generator without returning a URI")
        for s in rets:
            nret += 1
            v = s.end[1]
            if v is None:
                dom_bad.append(f"x64={x64}: a path returns no URI")
                continue
            # `return random_stager_uri(x64=.., length=..)` (retry by recursion): covered by induction when x64 is passed on
            if isinstance(v, ast.Call) and dotted(v.func) == f.qualname and not v.args:
                kw = {k.arg: k.value for k in v.keywords}
                if isinstance(kw.get("x64"), ast.Constant) and kw["x64"].value is x64:
                    nret -= 1
                    continue
            # `return next(u for u in <candidates> if is_stager(u))` / `next(filter(is_stager, <candidates>))`
            fn_ = _filtered_next(v)
            if fn_ is not None:
                d = dotted(fn_)
                sym = ctx.rs.lookup_dotted(f.module.name, d) if d else None
                fq = sym.fq if sym is not None and sym.kind in ("func", "partial") else None
                if fq == want[x64]:
                    continue
                if fq in cls:
                    sel_bad.append(f"x64={x64}: the returned URI passed {fq} instead of {want[x64]}")
                    continue
            kv = _k(v)
            tests = []  # (resolved classifier fq, polarity, same value?)
            opaque = []
            for a, pol in s.conds:
                fq = None
                if isinstance(a, ast.Call):
                    d = dotted(a.func)
                    sym = ctx.rs.lookup_dotted(f.module.name, d) if d else None
                    fq = sym.fq if sym is not None and sym.kind in ("func", "partial") else None
                if fq in cls and len(a.args) == 1 and not a.keywords:
                    tests.append((fq, pol, _k(a.args[0]) == kv))
                elif (any(_k(n) == kv for n in ast.walk(a)) or (isinstance(v, ast.Name) and _mentions(a, v.id))) and _could_classify(a):
                    opaque.append(a)
            pos = [t for t in tests if t[1] and t[2]]
            if any(t[0] == want[x64] for t in pos):
                pass
            elif pos:
                sel_bad.append(f"x64={x64}: the returned URI passed {pos[0][0]} instead of {want[x64]}")
            elif any(t[0] == want[x64] and not t[1] and t[2] for t in tests):
                dom_bad.append(f"x64={x64}: a URI that FAILED {want[x64]} is returned (path: {_cond_text(s.conds)[-3:]})")
            elif any(t[1] and not t[2] for t in tests):
                dom_bad.append(f"x64={x64}: the classifier was applied to another value than the one returned (`{src(v)[:60]}`)")
            elif opaque:
                dom_und.append(f"x64={x64}: the returned URI is guarded by `{src(opaque[0])[:80]}`, which is not a direct classifier call")
            elif not tests and any(dotted(n) is not None and "@" not in dotted(n) and getattr(ctx.rs.lookup_dotted(f.module.name, dotted(n)), "fq", None) == want[x64] for n in ast.walk(v) if isinstance(n, (ast.Name, ast.Attribute))):
                dom_und.append(f"x64={x64}: the returned expression `{src(v)[:80]}` uses the classifier in a way the rule does not model")
            else:
                dom_bad.append(f"x64={x64}: `{src(v)[:60]}` is returned without passing {want[x64]} (path: {_cond_text(s.conds)[-3:]})")
            # admitted lengths on this path
            admitted = []
            for k in range(-3, 13):
                feas = True
                for a, pol in s.conds:
                    if _names(a) <= {"length"}:
                        t = _truth(a, {"length": k})
                        if t is None:
                            continue
                        if t == "raises" or t != pol:
                            feas = False
                            break
                if feas:
                    admitted.append(k)
            lim = [k for k in admitted if k < 3 or (x64 and k != 4)]
            if lim:
                pre_bad.append(f"x64={x64}: a URI is generated for length {lim[:4]}")
            # candidate shape (expand a havoc'd loop symbol to the definition that reaches the loop end)
            cand = v
            if isinstance(v, ast.Name) and "@" in v.id:
                nm, _, k = v.id.partition("@")
                lp = ex.loops.get(int(k)) if k.isdigit() else None
                if lp is not None:
                    defs = {src(b.env[nm]): b.env[nm] for b in lp.iters if nm in b.env and not (isinstance(b.env[nm], ast.Name) and b.env[nm].id == v.id)}
                    if lp.pre.get(nm) is not None:
                        defs[src(lp.pre[nm])] = lp.pre[nm]
                    if len(defs) == 1:
                        cand = list(defs.values())[0]
            shape[src(cand)] = _candidate_shape(cand, "length", f.module)
    if dom_bad:
        ctx.ob("R4", "DOM", f, "return <uri>", False, "; ".join(dict.fromkeys(dom_bad))[:400])
    elif dom_und:
        ctx.undecided("R4", "DOM", f, "return <uri>", "; ".join(dict.fromkeys(dom_und))[:400])
    else:
        ctx.ob("R4", "DOM", f, "return <uri>", nret > 0, f"every one of the {nret} returning paths returns the very value that passed a classifier call on its true edge")
    ctx.ob("R4", "AGREE", f, "is_stager = is_stager_x64 if x64 else is_stager_x86", not sel_bad, "the classifier a returned URI passed is is_stager_x64 when x64 is set and is_stager_x86 otherwise" if not sel_bad else "; ".join(dict.fromkeys(sel_bad))[:300])
    ctx.ob("R4", "DOM", f, "preconditions", not pre_bad, "URIs are only generated for length >= 3, and for x64 only for length == 4 (lengths -3..12 decided on the path conditions)" if not pre_bad else "; ".join(dict.fromkeys(pre_bad))[:300])
    # shape of the candidates
    shapes = list(shape.items())
    if not shapes or any(v is None for _t, v in shapes):
        t = next((t for t, v in shapes if v is None), "")
        ctx.undecided("R4", "AGREE", f, "uri = '/' + length chars", f"candidate expression `{t[:120]}` is not '/' + ''.join(<length random choices>)")
        ctx.undecided("R4", "TABLE", f, "alphabet", "candidate expression not recognised")
        return
    pref_ok = all(v[0] for _t, v in shapes)
    cnt_ok = all(v[1] for _t, v in shapes)
    ctx.ob("R4", "AGREE", f, "uri = '/' + length chars", pref_ok and cnt_ok, f"candidate URIs are '/' followed by `length` characters: prefix={pref_ok}, count={cnt_ok}")
    alphas = [v[2] for _t, v in shapes]
    if any(a is None for a in alphas):
        ctx.undecided("R4", "TABLE", f, "alphabet", f"alphabet `{shapes[0][1][3][:80]}` is not a constant string expression")
    else:
        ok = all(a and a <= _ALNUM for a in alphas)
        ctx.ob("R4", "TABLE", f, "alphabet", ok, "alphabet is within ASCII letters + digits (the x64 class [A-Za-z0-9])" if ok else f"alphabet contains {sorted(set().union(*alphas) - _ALNUM)[:8]}, outside [A-Za-z0-9]")


# ===================================================================================================== R5 staged beacon gate
def _has_attr_chain(e, text):
    return any(isinstance(n, ast.Attribute) and dotted(n) == text for n in ast.walk(e))


_STR_TRANSFORMS = {"lower", "upper", "strip", "lstrip", "rstrip", "replace", "split", "rsplit", "partition", "rpartition", "title", "swapcase", "casefold",
                   "capitalize", "removeprefix", "removesuffix", "translate", "zfill", "center", "ljust", "rjust", "join", "format", "expandtabs"}


def _uri_arg_kind(arg, uri):
    """How a classifier argument relates to the request URI `uri` (dotted text): "exact" (the URI itself, decoded to
    text at most), "transformed" (string surgery on it: another string is classified), "unknown" (derived in a way the
    rule does not model), None (unrelated)."""
    if not _has_attr_chain(arg, uri):
        return None
    e = arg
    while True:
        if dotted(e) == uri:
            return "exact"
        if isinstance(e, ast.Call) and isinstance(e.func, ast.Attribute) and e.func.attr == "decode":
            e = e.func.value
        elif isinstance(e, ast.Call) and dotted(e.func) == "str" and e.args:
            e = e.args[0]
        else:
            break
    for n in ast.walk(arg):
        if isinstance(n, ast.Call) and isinstance(n.func, ast.Attribute) and n.func.attr in _STR_TRANSFORMS and _has_attr_chain(n.func.value, uri):
            return "transformed"
        if isinstance(n, ast.Subscript) and _has_attr_chain(n.value, uri):
            return "transformed"
        if isinstance(n, ast.BinOp) and isinstance(n.op, (ast.Add, ast.Mod, ast.Mult)) and (_has_attr_chain(n.left, uri) or _has_attr_chain(n.right, uri)):
            return "transformed"
        if isinstance(n, ast.JoinedStr):
            return "transformed"
    return "unknown"


def r5(ctx):
    f = ctx.repo.func("pcap.BeaconCapture.find_staged_beacon")
    ps = params(f.node)
    resp = ps[1] if len(ps) > 1 else ps[0]
    TEXT = "from_bytes dominated by a positive stager test"
    ex, states = _try_paths(ctx, "R5", "DOM", f, TEXT, resolver=_helper_resolver(ctx, f, {"utils.is_stager_x86", "utils.is_stager_x64", "utils.checksum8", "beacon.BeaconConfig"}))
    if states is None:
        return
    req = f"{resp}.request"
    uri = f"{resp}.request.uri"

    def sinks(e):
        out = []
        for n in ast.walk(e):
            if isinstance(n, ast.Call):
                d = dotted(n.func)
                s = ctx.rs.lookup_dotted(f.module.name, d) if d else None
                if s is not None and s.kind == "func" and s.fq.startswith("beacon.BeaconConfig.from_"):
                    out.append(n)
        return out

    def request_test(a, pol):
        """Does the condition say the request is known (True) / unknown (False)?  None: not a request test."""
        if dotted(a) == req:
            return pol
        if isinstance(a, ast.Compare) and len(a.ops) == 1 and dotted(a.left) == req and isinstance(a.comparators[0], ast.Constant) and a.comparators[0].value is None:
            if isinstance(a.ops[0], (ast.Is, ast.Eq)):
                return not pol
            if isinstance(a.ops[0], (ast.IsNot, ast.NotEq)):
                return pol
        return None

    bad, undec, exits = [], [], []
    nsink = 0
    args = []
    for s in states:
        calls = [(st, c) for st, v in s.events for c in sinks(v)]
        known = None
        tests = {}
        opaque = []
        transformed = []
        for a, pol in s.conds:
            r = request_test(a, pol)
            if r is not None:
                known = r if known is None else (known and r)
                continue
            fq = None
            if isinstance(a, ast.Call):
                d = dotted(a.func)
                sym = ctx.rs.lookup_dotted(f.module.name, d) if d else None
                fq = sym.fq if sym is not None and sym.kind in ("func", "partial") else None
            kind = _uri_arg_kind(a.args[0], uri) if fq in ("utils.is_stager_x86", "utils.is_stager_x64") and len(a.args) == 1 else None
            if kind == "exact":
                tests[fq] = pol if fq not in tests else (tests[fq] or pol)
            elif kind == "transformed":
                if pol:
                    transformed.append(a)
            elif kind == "unknown":
                opaque.append(a)
            elif fq in ("utils.is_stager_x86", "utils.is_stager_x64"):
                # a classifier applied to something else: only unclear when that something still comes from the request
                if any(_has_attr_chain(x, req) for x in a.args):
                    opaque.append(a)
            elif _has_attr_chain(a, req) and _could_classify(a):
                opaque.append(a)
        positive = any(tests.values())
        negative = tests.get("utils.is_stager_x86") is False and tests.get("utils.is_stager_x64") is False
        if known is False:
            continue
        if negative and s.end[0] == "return" and not calls:
            exits.append(s)
        if not calls:
            continue
        nsink += 1
        args.extend(c for _st, c in calls)
        if positive:
            continue
        why = f"path {_cond_text(s.conds)[:5]} reaches {src(calls[0][1])[:60]}"
        if transformed and not negative:
            bad.append(f"the classifier is applied to a transformed URI `{src(transformed[0].args[0])[:80]}`, not to the request URI itself: " + why)
        elif negative or not opaque:
            bad.append(("the request URI failed both stager classifiers: " if negative else "no stager test of the request URI: ") + why)
        else:
            undec.append(f"guarded by `{src(opaque[0])[:80]}`, not a direct is_stager_x86/x64 call: " + why)
    total_sinks = sum(1 for s in states for _st, v in s.events for _c in sinks(v))
    if total_sinks == 0:
        ctx.undecided("R5", "DOM", f, TEXT, "no BeaconConfig.from_* extraction call found on any path")
        return
    if bad:
        ctx.ob("R5", "DOM", f, TEXT, False, f"with a known request the extraction must only be reachable after is_stager_x86/x64(request uri) was true: {bad[0][:300]}")
    elif undec:
        ctx.undecided("R5", "DOM", f, TEXT, undec[0][:300])
    else:
        ctx.ob("R5", "DOM", f, TEXT, True, f"every path with a known request that reaches the extraction ({nsink} path(s)) carries a positive is_stager_x86/x64 test of the request URI")
    if exits:
        wrong = [s for s in exits if not (s.end[1] is None or (isinstance(s.end[1], ast.Constant) and s.end[1].value is None))]
        ctx.ob("R5", "EXIT", f, "non-stager -> None", not wrong, "a known non-stager request yields None" if not wrong else f"a known non-stager request yields `{src(wrong[0].end[1])[:80]}`")
    body_ok = bool(args) and all(c.args and dotted(c.args[0]) == f"{resp}.body" for c in args)
    if args and not body_ok and not any(c.args and _mentions(c.args[0], resp) for c in args):
        ctx.undecided("R5", "AGREE", f, "BeaconConfig.from_bytes(response.body)", f"extraction argument `{src(args[0].args[0]) if args[0].args else ''}` is not derived from the response")
    else:
        ctx.ob("R5", "AGREE", f, "BeaconConfig.from_bytes(response.body)", body_ok, "the beacon is extracted from the response body" if body_ok else f"the beacon is extracted from `{src(args[0].args[0])[:80] if args and args[0].args else None}`")


# ===================================================================================================== R6 NetBIOS
def _seq_builder(ex, v):
    """A returned byte sequence as (iterable term, loop target, [element terms per iteration]) from either a
    comprehension or a list-building loop; None when the term has another shape."""
    v = _strip_view(v)
    if isinstance(v, (ast.ListComp, ast.GeneratorExp)):
        gens = v.generators
        if any(g.ifs or g.is_async for g in gens) or len(gens) > 2:
            return None
        elts = [v.elt]
        if len(gens) == 2:
            g2 = gens[1]
            it2 = g2.iter
            if isinstance(it2, ast.Call) and dotted(it2.func) == "divmod" and len(it2.args) == 2:
                items = [ast.BinOp(left=it2.args[0], op=ast.FloorDiv(), right=it2.args[1]), ast.BinOp(left=it2.args[0], op=ast.Mod(), right=it2.args[1])]
            elif isinstance(it2, (ast.Tuple, ast.List)):
                items = list(it2.elts)
            else:
                return None
            if not isinstance(g2.target, ast.Name):
                return None
            elts = [_subst_name(v.elt, g2.target.id, x) for x in items]
        return gens[0].iter, gens[0].target, elts
    if isinstance(v, ast.Name) and "@" in v.id:
        nm, _, k = v.id.partition("@")
        lp = ex.loops.get(int(k)) if k.isdigit() else None
        if lp is None or not isinstance(lp.stmt, ast.For) or lp.exits or len(lp.iters) != 1:
            return None
        pre = lp.pre.get(nm)
        try:
            if pre is None or len(_ev(pre)) != 0:
                return None
        except _NoEval:
            return None
        elts = _emissions(lp.iters[0].env.get(nm), v.id)
        if elts is None:
            return None
        # loop target as symbols
        tgt = copy.deepcopy(lp.stmt.target)
        for n in ast.walk(tgt):
            if isinstance(n, ast.Name):
                n.id = lp.head.get(n.id, n.id)
        return lp.iter, tgt, elts
    return None


def _subst_name(e, name, repl):
    class R(ast.NodeTransformer):
        def visit_Name(self, n):
            return copy.deepcopy(repl) if n.id == name and isinstance(n.ctx, ast.Load) else n

    return R().visit(copy.deepcopy(e))


def _emissions(t, head):
    """`$append($append(acc@k, a), b)` / `acc@k + [a, b]` / `$extend(acc@k, (a, b))` -> [a, b]."""
    if isinstance(t, ast.Name):
        return [] if t.id == head else None
    if isinstance(t, ast.Call) and dotted(t.func) == "$append" and len(t.args) == 2:
        base = _emissions(t.args[0], head)
        return None if base is None else base + [t.args[1]]
    items = None
    if isinstance(t, ast.Call) and dotted(t.func) == "$extend" and len(t.args) == 2:
        base, items = t.args[0], t.args[1]
    elif isinstance(t, ast.BinOp) and isinstance(t.op, ast.Add):
        base, items = t.left, t.right
    if items is None:
        return None
    items = _strip_view(items)
    if not isinstance(items, (ast.Tuple, ast.List)) or any(isinstance(x, ast.Starred) for x in items.elts):
        return None
    b = _emissions(base, head)
    return None if b is None else b + list(items.elts)


_OFFSETS = (0, 1, 0x41, 0x61, 0x52, 0x6C, 100, 200, 240)


def r6(ctx):
    e, d = ctx.repo.func("utils.netbios_encode"), ctx.repo.func("utils.netbios_decode")
    enc = dec = None
    # ---- encoder: per input byte c the symbols (c >> 4) + offset, (c & 15) + offset in this order
    TE, TD = "encoder nibble order", "decoder nibble order"
    for g, text in ((e, TE), (d, TD)):
        gps = params(g.node)
        ex, states = _try_paths(ctx, "R6", "AGREE", g, text)
        if states is None:
            continue
        rets = [s for s in states if s.end[0] == "return" and s.end[1] is not None]
        if len(rets) > 1:
            # an extra shortcut for empty input that returns the empty result does not matter
            def empty_shortcut(s):
                try:
                    if len(_ev(s.end[1], {gps[0]: b""})) != 0:
                        return False
                except (_NoEval, TypeError):
                    return False
                return _feasible(s, {gps[0]: b""})[0] and not _feasible(s, {gps[0]: b"AB"})[0] and not _feasible(s, {gps[0]: b"ABCD"})[0]

            rets = [s for s in rets if not empty_shortcut(s)]
        if len(rets) != 1 or any(s.end[0] == "fall" for s in states):
            ctx.undecided("R6", "AGREE", g, text, f"{len(rets)} returning paths (expected one sequence-building path)")
            continue
        sb = _seq_builder(ex, rets[0].end[1])
        if sb is None:
            ctx.undecided("R6", "AGREE", g, text, f"result `{src(rets[0].end[1])[:120]}` is neither a comprehension nor a list filled by one for-loop")
            continue
        sb = (_unview(sb[0], gps[:1]) if g is d else sb[0], sb[1], [_unview(x, gps[:1]) for x in sb[2]])
        if g is e:
            enc = (gps, sb)
        else:
            dec = (gps, sb)
    if enc is not None:
        (dp, op), (it, tgt, elts) = enc[0][:2], enc[1]
        src_ok = _is_param(_strip_view(it), dp)
        if not src_ok:
            if _mentions(it, dp):
                ctx.ob("R6", "AGREE", e, TE, False, f"the encoder iterates over a transformed copy of the data: `{src(it)[:80]}`")
            else:
                ctx.undecided("R6", "AGREE", e, TE, f"the encoder iterates over `{src(it)[:80]}`, not recognisably the data")
        elif not isinstance(tgt, ast.Name):
            ctx.undecided("R6", "AGREE", e, TE, "loop target is not a single byte variable")
        else:
            cv = tgt.id
            bad = und = None
            if len(elts) != 2:
                bad = f"{len(elts)} symbol(s) are emitted per input byte, required 2"
            else:
                try:
                    for c in range(256):
                        for off in _OFFSETS:
                            got = [_ev(x, {cv: c, op: off}) for x in elts]
                            if got != [(c >> 4) + off, (c & 15) + off]:
                                bad = f"byte {c:#x}, offset {off:#x}: emitted {got}, required high nibble + offset then low nibble + offset {[(c >> 4) + off, (c & 15) + off]}"
                                break
                        if bad:
                            break
                except _Raises as x:
                    bad = f"symbol expression raises: {x}"
                except _NoEval as x:
                    und = f"symbol expressions {[src(x)[:60] for x in elts]} not evaluable ({x})"
                    if any(_mentions(x, op) and not any(_is_param(n, op) for n in ast.walk(x)) for x in elts):
                        und = None
                        bad = "the offset is transformed before use"
            if bad:
                ctx.ob("R6", "AGREE", e, TE, False, bad)
            elif und:
                # a rewritten parameter shows up as an unevaluable sub-term that still mentions the parameter
                ctx.undecided("R6", "AGREE", e, TE, und)
            else:
                ctx.ob("R6", "AGREE", e, TE, True, f"per input byte the symbols {[src(x) for x in elts]} = (high nibble + offset, low nibble + offset), decided for all 256 bytes and {len(_OFFSETS)} offsets")
    if dec is not None:
        (dp, op), (it, tgt, elts) = dec[0][:2], dec[1]
        bad = und = None
        roles = {}  # src text of a sub-term -> "$x" / "$y"
        if len(elts) != 1:
            bad = f"{len(elts)} bytes are produced per step, required 1"
        E1 = elts[0] if elts else None
        if bad is None:
            tn = _target_names(tgt)
            if isinstance(it, ast.Call) and dotted(it.func) == "zip" and len(it.args) == 2 and isinstance(tgt, (ast.Tuple, ast.List)) and len(tn) == 2:
                for name, a in zip(tn, it.args):
                    a = _strip_view(a) if not isinstance(a, ast.Subscript) else a
                    okk = isinstance(a, ast.Subscript) and _is_param(_strip_view(a.value), dp) and isinstance(a.slice, ast.Slice) and _c(a.slice.step) == 2 and a.slice.upper is None
                    lo = (0 if a.slice.lower is None else _c(a.slice.lower)) if okk else None
                    if lo not in (0, 1):
                        und = f"pair iteration `{src(it)[:80]}` is not a zip of the even and the odd positions of the data"
                    roles[name] = "$x" if lo == 0 else "$y"
                if und is None and sorted(roles.values()) != ["$x", "$y"]:
                    bad = f"pair iteration `{src(it)[:80]}` does not pair every even position with the following odd one"
            elif len(tn) == 1 and isinstance(tgt, ast.Name):
                iv = tgt.id
                subs = [n for n in ast.walk(E1) if isinstance(n, ast.Subscript) and _mentions(n.value, dp)]
                for n in subs:
                    if not _is_param(_strip_view(n.value), dp):
                        bad = f"the decoder reads a transformed copy of the data: `{src(n.value)[:80]}`"
                    elif isinstance(n.slice, ast.Slice):
                        und = f"slice access `{src(n)[:60]}`"
                if not subs and _mentions(E1, dp) is False:
                    und = "the decoded byte does not read the data by index"
                # positions: over an even length L the steps must visit (0,1), (2,3), ...
                if bad is None and und is None:
                    itx = _abstract(it, {f"len({dp})": "$len"})
                    try:
                        for L in (0, 2, 4, 6, 10):
                            steps = list(_ev(itx, {"$len": L}))
                            for j, i in enumerate(steps):
                                for n in subs:
                                    pos = _ev(n.slice, {iv: i})
                                    if pos == 2 * j:
                                        r = "$x"
                                    elif pos == 2 * j + 1:
                                        r = "$y"
                                    else:
                                        bad = bad or f"step {j} over {L} symbols reads position {pos}, required {2 * j} and {2 * j + 1}"
                                        continue
                                    if roles.setdefault(src(n), r) != r:
                                        bad = bad or f"`{src(n)}` is not consistently the first/second symbol of a pair"
                            if len(steps) != L // 2:
                                bad = bad or f"{len(steps)} steps over {L} symbols (`{src(it)[:60]}`), required {L // 2}"
                    except _Raises as x:
                        bad = bad or f"index expression raises: {x}"
                    except _NoEval as x:
                        und = f"iteration `{src(it)[:60]}` / index not evaluable ({x})"
                    if bad is None and und is None and set(roles.values()) != {"$x", "$y"}:
                        bad = f"a step reads only {sorted(roles)} of its pair"
            else:
                und = f"iteration `{src(it)[:80]}` not recognised"
        if bad is None and und is None:
            Ea = _abstract(E1, roles) if not all(k.isidentifier() for k in roles) else _subst_roles(E1, roles)
            try:
                for c in range(256):
                    for off in _OFFSETS:
                        x, y = (c >> 4) + off, (c & 15) + off
                        got = _ev(Ea, {"$x": x, "$y": y, op: off})
                        if got != c:
                            bad = f"symbols ({x:#x}, {y:#x}) at offset {off:#x} decode to {got!r}, required {c:#x} (first symbol is the high nibble, each minus offset)"
                            break
                    if bad:
                        break
            except _Raises as x:
                bad = f"decoded byte expression raises: {x}"
            except _NoEval as x:
                und = f"decoded byte `{src(E1)[:80]}` not evaluable ({x})"
                if _mentions(E1, op) and not any(_is_param(n, op) for n in ast.walk(E1)) or any(isinstance(n, ast.Call) and _mentions(n, op) for n in ast.walk(E1)):
                    und, bad = None, f"the offset is transformed before use in `{src(E1)[:80]}`"
        if bad:
            ctx.ob("R6", "AGREE", d, TD, False, bad)
        elif und:
            ctx.undecided("R6", "AGREE", d, TD, und)
        else:
            ctx.ob("R6", "AGREE", d, TD, True, f"pairs (2j, 2j+1) of the data are combined as `{src(E1)[:80]}`, which gives back every byte from the encoder's two symbols (all 256 bytes, {len(_OFFSETS)} offsets)")
    de, dd = _c(param_defaults(e.node).get(params(e.node)[1])) if len(params(e.node)) > 1 else None, _c(param_defaults(d.node).get(params(d.node)[1])) if len(params(d.node)) > 1 else None
    ctx.ob("R6", "AGREE", e, "default offset", de == dd == 0x41, f"encoder default offset {de}, decoder {dd}")


def _subst_roles(e, roles):
    class R(ast.NodeTransformer):
        def visit_Name(self, n):
            return ast.Name(id=roles[n.id], ctx=ast.Load()) if n.id in roles else n

    return R().visit(copy.deepcopy(e))
