"""C20 - Byte-level codecs and stager URI classification are exact (decidable part)."""

from __future__ import annotations

import ast
import re

from csverif.astutil import assignments_to, body_walk, compare_parts, const_eval, dotted, fn_calls, is_const, kwarg, NotConst, param_defaults, params, src, statements
from csverif.astutil import pmatch, find_match
from csverif.cfg import ENTRY, EXIT
from csverif.q import FuncView, dominating_conditions, guarded_by, origin, raise_class, specialise


def _c(node):
    try:
        return const_eval(node) if node is not None else None
    except (NotConst, TypeError):
        return None


def run(ctx):
    rep = ctx.rep
    rep.explanation = (
        "Static analysis of utils.py and pcap.find_staged_beacon: xor() returns either its input or int.to_bytes(.., "
        "len(data), ..) (length preserving), takes the identity shortcut exactly on sum(key) == 0, tiles and cuts the key "
        "to the data length; the table of pack/unpack partials is compared completely with the widths/byte orders their "
        "names promise; classifier constants; a generated stager URI is returned only under its own classifier; the staged "
        "beacon extraction is dominated by a positive stager test when the request is known; NetBIOS nibble order agrees "
        "between encoder and decoder."
    )
    rep.not_decided = ["self-inverse / inverse laws over all inputs", "odd-length NetBIOS input", "width limits of pack()"]
    rep.trusted_base = ["CPython ast", "networkx dominators", "int.from_bytes / to_bytes semantics"]
    r1(ctx)
    r2(ctx)
    r3(ctx)
    r4(ctx)
    r5(ctx)
    r6(ctx)


def r1(ctx):
    f = ctx.repo.func("utils.xor")
    cfg = ctx.cfg(f)
    data, key = params(f.node)[0], params(f.node)[1]
    rets = cfg.return_stmts()
    kinds = []
    for r in rets:
        v = r.value
        if dotted(v) == data:
            conds = [t for t, pol, n in dominating_conditions(ctx, f, r) if pol]
            ok = set(conds) == {f"sum({key}) == 0", f"0 == sum({key})"}
            kinds.append("identity")
            ctx.ob("R1", "ABS", f, "return data", ok, f"identity shortcut taken under {conds}; required exactly `sum(key) == 0` (covers empty and all-zero keys)", r)
        elif isinstance(v, ast.Call) and dotted(v.func) in ("int.to_bytes",) or (isinstance(v, ast.Call) and isinstance(v.func, ast.Attribute) and v.func.attr == "to_bytes"):
            kinds.append("to_bytes")
            if dotted(v.func) == "int.to_bytes":
                val, ln, order = v.args[0], v.args[1], v.args[2] if len(v.args) > 2 else kwarg(v, "byteorder")
            else:
                val, ln, order = v.func.value, v.args[0], v.args[1] if len(v.args) > 1 else kwarg(v, "byteorder")
            lo = origin(f.node, ln)
            len_ok = isinstance(lo, ast.Call) and dotted(lo.func) == "len" and dotted(lo.args[0]) == data and not [s for s, vv in assignments_to(f.node, data)]
            # operands: from_bytes(data) ^ from_bytes(key) with the same byte order
            fb = [c for c in ast.walk(val) if isinstance(c, ast.Call) and dotted(c.func) == "int.from_bytes"]
            orders = {_c(c.args[1] if len(c.args) > 1 else kwarg(c, "byteorder")) for c in fb} | {_c(order)}
            ops_ok = isinstance(val, ast.BinOp) and isinstance(val.op, ast.BitXor) and sorted(dotted(c.args[0]) for c in fb) == sorted([data, key]) and len(orders) == 1
            ctx.ob("R1", "ABS", f, "return int.to_bytes(.., len(data), ..)", len_ok and ops_ok,
                   f"result length is len({data})={len_ok}; value is from_bytes({data}) ^ from_bytes({key}) with one byte order {orders}={ops_ok}", r)
        else:
            kinds.append("other")
            ctx.ob("R1", "ABS", f, "return " + src(v), False, "unexpected return: length preservation not established", r)
    ctx.ob("R1", "ABS", f, "return kinds", sorted(kinds) == ["identity", "to_bytes"] and not cfg.falls_off_end(), f"returns: {kinds}")
    kd = [(st, v) for st, v in assignments_to(f.node, key)]
    tile = [v for st, v in kd if isinstance(v, ast.BinOp) and isinstance(v.op, ast.Mult)]
    cut = [v for st, v in kd if isinstance(v, ast.Subscript)]
    # SZ = the local holding len(data)
    SZ = next((dotted(st.targets[0]) for st in statements(f.node) if isinstance(st, ast.Assign) and pmatch("len($d)", st.value, {"d": data}) is not None), "size")
    t_ok = len(tile) == 1 and pmatch("$k * ($s // len($k) + 1)", tile[0], {"k": key, "s": SZ}) is not None
    c_ok = len(cut) == 1 and pmatch("$k[:$s]", cut[0], {"k": key, "s": SZ}) is not None
    order_ok = False
    if t_ok and c_ok:
        tn = cfg.node([st for st, v in kd if v is tile[0]][0])
        cn = cfg.node([st for st, v in kd if v is cut[0]][0])
        order_ok = not cfg.reaches(cn, tn) and all(cfg.dominates(cn, cfg.node(r)) for r in rets if dotted(r.value) != data)
    ctx.ob("R1", "ABS", f, "key tiled then cut to size", t_ok and c_ok and order_ok, f"tiling key * (size // len(key) + 1)={t_ok}; cut key[:size]={c_ok}; cut after tiling and before the XOR={order_ok}")
    g_ok = bool(tile) and guarded_by(ctx, f, tile[0], lambda t: True if pmatch("len($k) < $s", t, {"k": key, "s": SZ}) is not None else None)
    ctx.ob("R1", "ABS", f, "tiling guard", bool(g_ok), "key is tiled only when shorter than the data")


def r2(ctx):
    mod = ctx.repo.module("utils")
    n = 0
    for name, val in sorted(mod.consts.items()):
        m = re.fullmatch(r"([up])(8|16|32|64)(be)?", name)
        if not m:
            continue
        n += 1
        kind, bits, be = m.group(1), int(m.group(2)), bool(m.group(3))
        ok = False
        detail = f"{name} = {src(val)}"
        if isinstance(val, ast.Call) and dotted(val.func) in ("partial", "functools.partial") and val.args:
            tgt = dotted(val.args[0])
            kws = {k.arg: _c(k.value) for k in val.keywords}
            want_t = "unpack" if kind == "u" else "pack"
            bo = kws.get("byteorder", "little")
            ok = tgt == want_t and kws.get("size") == bits // 8 and bo == ("big" if be else "little") and "signed" not in kws
            detail = f"{name} = partial({tgt}, size={kws.get('size')}, byteorder={bo!r}); required partial({want_t}, size={bits // 8}, byteorder={'big' if be else 'little'!r})"
        ctx.ob("R2", "TABLE", f"utils.py::{name}", "partial", ok, detail, val)
    ctx.rep.count("pack_unpack_partials", n, floor=14)
    for name, tgt in (("unpack_be", "unpack"), ("pack_be", "pack")):
        v = mod.consts.get(name)
        ok = isinstance(v, ast.Call) and dotted(v.args[0]) == tgt and {k.arg: _c(k.value) for k in v.keywords} == {"byteorder": "big"}
        ctx.ob("R2", "TABLE", f"utils.py::{name}", "partial", bool(ok), f"{name} = {src(v)}")
    u = ctx.repo.func("utils.unpack")
    rets = [s for s in statements(u.node) if isinstance(s, ast.Return)]
    ok = len(rets) == 1 and src(rets[0].value) == "int.from_bytes(data[:size], byteorder=byteorder, signed=signed)"
    d = param_defaults(u.node)
    ok = ok and _c(d.get("byteorder")) == "little" and _c(d.get("signed")) is False
    ctx.ob("R2", "AGREE", u, "unpack", ok, "unpack passes byteorder/signed through to int.from_bytes over data[:size] (defaults little, unsigned)" if ok else f"unpack is {src(rets[0].value) if rets else None}")
    p = ctx.repo.func("utils.pack")
    rets = [s for s in statements(p.node) if isinstance(s, ast.Return)]
    ok = len(rets) == 1 and src(rets[0].value) == "n.to_bytes(size, byteorder=byteorder, signed=signed)"
    mins = [s for s in statements(p.node) if isinstance(s, ast.Assign) and dotted(s.targets[0]) == "size"]
    ok = ok and len(mins) == 1 and src(mins[0].value).replace(" ", "") == "(n.bit_length()+7)//8" and guarded_by(ctx, p, mins[0], lambda t: True if src(t) == "size is None" else None)
    d = param_defaults(p.node)
    ok = ok and _c(d.get("byteorder")) == "little" and _c(d.get("signed")) is False
    ctx.ob("R2", "AGREE", p, "pack", bool(ok), "pack passes byteorder/signed through to int.to_bytes and sizes minimally only when size is None" if ok else "pack shape not recognised")


def r3(ctx):
    c8 = ctx.repo.func("utils.checksum8")
    txt = [src(s) for s in statements(c8.node) if not isinstance(s, ast.Expr)]
    p = params(c8.node)[0]
    short = any(isinstance(s, ast.If) and src(s.test) == f"len({p}) < 4" and len(s.body) == 1 and isinstance(s.body[0], ast.Return) and _c(s.body[0].value) == 0 for s in statements(c8.node))
    strip = any(isinstance(s, ast.Assign) and src(s.value) == f"{p}.replace('/', '')" for s in statements(c8.node))
    rets = [s for s in statements(c8.node) if isinstance(s, ast.Return) and not isinstance(s.value, ast.Constant)]
    mod = len(rets) == 1 and src(rets[0].value) == f"sum(map(ord, {p})) % 256"
    ctx.ob("R3", "TABLE", c8, "checksum8", short and strip and mod, f"0 below four characters={short}; ignores '/'={strip}; sum of code points modulo 256={mod}")
    x86 = ctx.repo.func("utils.is_stager_x86")
    r = [s for s in statements(x86.node) if isinstance(s, ast.Return)]
    ok = len(r) == 1 and src(r[0].value) == f"checksum8({params(x86.node)[0]}) == 92"
    ctx.ob("R3", "TABLE", x86, "x86 <=> checksum8 == 92", ok, f"x86 classifier: {src(r[0].value) if r else None}")
    x64 = ctx.repo.func("utils.is_stager_x64")
    r = [s for s in statements(x64.node) if isinstance(s, ast.Return)]
    ok = False
    if len(r) == 1:
        v = r[0].value
        inner = v.args[0] if isinstance(v, ast.Call) and dotted(v.func) == "bool" and v.args else v
        if isinstance(inner, ast.BoolOp) and isinstance(inner.op, ast.And) and len(inner.values) == 2:
            a, b = inner.values
            u = params(x64.node)[0]
            m_ok = isinstance(b, ast.Call) and dotted(b.func) in ("re.match", "re.fullmatch") and _c(b.args[0]) in ("^/[A-Za-z0-9]{4}$", "/[A-Za-z0-9]{4}") and dotted(b.args[1]) == u
            if m_ok and dotted(b.func) == "re.match":
                m_ok = _c(b.args[0]).endswith("$")
            ok = src(a) == f"checksum8({u}) == 93" and m_ok
    ctx.ob("R3", "TABLE", x64, "x64 <=> checksum8 == 93 and /[A-Za-z0-9]{4}", ok, f"x64 classifier: {src(r[0].value) if r else None}")


def r4(ctx):
    f = ctx.repo.func("utils.random_stager_uri")
    cfg = ctx.cfg(f)
    rets = cfg.return_stmts()
    SEL = next((dotted(st.targets[0]) for st in statements(f.node) if isinstance(st, ast.Assign) and isinstance(st.value, ast.IfExp) and "is_stager" in src(st.value)), "is_stager")
    sel = [v for st, v in assignments_to(f.node, SEL)]
    sel_ok = len(sel) == 1 and isinstance(sel[0], ast.IfExp) and src(sel[0]) == "is_stager_x64 if x64 else is_stager_x86"
    ctx.ob("R4", "AGREE", f, "is_stager = is_stager_x64 if x64 else is_stager_x86", sel_ok, f"classifier selection: {[src(s) for s in sel]}")
    for r in rets:
        name = dotted(r.value)
        ok = name is not None and guarded_by(ctx, f, r, lambda t: True if src(t) == f"{SEL}({name})" else None)
        # and uri is not rebound between the test and the return
        ctx.ob("R4", "DOM", f, "return <uri>", bool(ok), "a URI is returned only on the true edge of its own classifier" if ok else "URI returned without passing is_stager(uri)", r)
    ch = [st.value for st in statements(f.node) if isinstance(st, ast.Assign) and "string." in src(st.value)]
    ok = len(ch) == 1 and src(ch[0]) in ("string.ascii_letters + string.digits", "string.digits + string.ascii_letters")
    ctx.ob("R4", "TABLE", f, "alphabet", ok, "alphabet is ASCII letters + digits (within the x64 class [A-Za-z0-9])")
    UV = dotted(rets[0].value) if rets else "uri"
    uri = [v for st, v in assignments_to(f.node, UV)]
    ok = len(uri) == 1 and src(uri[0]).startswith("'/' + ''.join(") and "range(length)" in src(uri[0])
    ctx.ob("R4", "AGREE", f, "uri = '/' + length chars", ok, "candidate URIs are '/' followed by `length` alphabet characters")
    pre = [(src(s.test), raise_class(s.body[0])) for s in f.node.body if isinstance(s, ast.If) and s.body and isinstance(s.body[0], ast.Raise)]
    loop = [s for s in f.node.body if isinstance(s, ast.While)]
    before = all(f.node.body.index(s) < f.node.body.index(loop[0]) for s in f.node.body if isinstance(s, ast.If) and s.body and isinstance(s.body[0], ast.Raise)) if loop else False
    from csverif.astutil import conjuncts as _cj
    guards = [(s2.test, raise_class(s2.body[0])) for s2 in f.node.body if isinstance(s2, ast.If) and s2.body and isinstance(s2.body[0], ast.Raise)]
    g1 = any(rc == "ValueError" and any(isinstance(op, ast.Lt) and dotted(l) == "length" and _c(r) == 3 for l, op, r in compare_parts(t)) for t, rc in guards)
    g2 = any(rc == "ValueError" and any(dotted(c) == "x64" for c in _cj(t)) and any(isinstance(op, ast.NotEq) and dotted(l) == "length" and _c(r) == 4 for c in _cj(t) for l, op, r in compare_parts(c)) for t, rc in guards)
    ok = g1 and g2 and len(guards) == 2 and before
    ctx.ob("R4", "DOM", f, "preconditions", ok, f"argument checks {pre} precede the sampling loop={before}")


def r5(ctx):
    f = ctx.repo.func("pcap.BeaconCapture.find_staged_beacon")
    cfg = ctx.cfg(f)
    fv = FuncView.of(f.node)
    resp = params(f.node)[1]
    calls = [c for c in fn_calls(f.node) if dotted(c.func) == "BeaconConfig.from_bytes"]
    if len(calls) != 1:
        ctx.ob("R5", "DOM", f, "BeaconConfig.from_bytes", False, f"{len(calls)} extraction calls")
        return
    sink = cfg.node(fv.stmt_of(calls[0]))
    spec = specialise(cfg, {f"{resp}.request": True})
    gate0 = [s2 for s2 in statements(f.node) if isinstance(s2, ast.If) and isinstance(s2.test, ast.UnaryOp) and isinstance(s2.test.op, ast.Not) and isinstance(s2.test.operand, ast.Name)
             and s2.body and isinstance(s2.body[0], ast.Return)]
    FLG = gate0[0].test.operand.id if gate0 else "is_stager"
    sets = [s for s in statements(f.node) if isinstance(s, ast.Assign) and dotted(s.targets[0]) == FLG and is_const(s.value, True)]
    good = []
    for s in sets:
        conds = [(t, n) for t, pol, n in dominating_conditions(ctx, f, s) if pol]
        st_ok = False
        for t, n in conds:
            if isinstance(n, ast.Call) and ctx.rs.resolve_call(f, n).fq in ("utils.is_stager_x86", "utils.is_stager_x64"):
                a = origin(f.node, n.args[0])
                st_ok = f"{resp}.request.uri" in src(a)
        if st_ok:
            good.append(cfg.node(s))
    # flag gate: `if not is_stager: return None`
    gate = [s for s in statements(f.node) if isinstance(s, ast.If) and src(s.test) == f"not {FLG}" and s.body and isinstance(s.body[0], ast.Return)]
    # with the gate, on every path to the sink is_stager is truthy: require every path to pass a positive assignment,
    # and the gate to dominate the sink in the specialised graph
    passes = spec.all_paths_pass(ENTRY, sink, good) if good else False
    gated = bool(gate) and spec.dominates(cfg.edge_node(gate[0], "false"), sink)
    inits = [s for s in statements(f.node) if isinstance(s, ast.Assign) and dotted(s.targets[0]) == FLG and is_const(s.value, False)]
    # flag propagation: the flag is only ever assigned the constants False (reset) and True (under a stager test), the
    # reset dominates every True-assignment, so "flag truthy at the gate" implies a positive stager test on this call
    all_sets = [s2 for s2 in statements(f.node) if isinstance(s2, (ast.Assign, ast.AugAssign)) and any(dotted(t) == FLG for t in (s2.targets if isinstance(s2, ast.Assign) else [s2.target]))]
    only_consts = len(all_sets) == len(inits) + len(good) and len(good) == len(sets)
    reset_first = bool(inits) and all(cfg.dominates(cfg.node(inits[0]), gnode) for gnode in good)
    flag_ok = only_consts and reset_first
    ok = bool(good) and gated and (passes or flag_ok)
    ctx.ob("R5", "DOM", f, "from_bytes dominated by a positive stager test", ok,
           f"with a known request: extraction is behind the `not is_stager -> return None` gate={gated}; is_stager is set True only under is_stager_x86/x64(request uri) ({len(good)} sites); every path from the flag reset to the extraction passes one={flag_ok}")
    if gate:
        ctx.ob("R5", "EXIT", f, "non-stager -> None", _c(gate[0].body[0].value) is None, "a known non-stager request yields None")
    body_ok = calls[0].args and src(calls[0].args[0]) == f"{resp}.body"
    ctx.ob("R5", "AGREE", f, "BeaconConfig.from_bytes(response.body)", bool(body_ok), "the beacon is extracted from the response body")


def r6(ctx):
    e, d = ctx.repo.func("utils.netbios_encode"), ctx.repo.func("utils.netbios_decode")
    ea = {dotted(s.targets[0]): src(s.value) for s in statements(e.node) if isinstance(s, ast.Assign)}
    order = [src(c.args[0]) for c in fn_calls(e.node) if isinstance(c.func, ast.Attribute) and c.func.attr == "append"]
    en = {dotted(s.targets[0]): s.value for s in statements(e.node) if isinstance(s, ast.Assign)}

    def plus_off(x):
        return x.left if isinstance(x, ast.BinOp) and isinstance(x.op, ast.Add) and dotted(x.right) == "offset" else None

    CV = next((dotted(s2.target) for s2 in statements(e.node) if isinstance(s2, ast.For)), "c")

    def is_hi(x):
        x = plus_off(x)
        if not (isinstance(x, ast.BinOp) and isinstance(x.op, ast.RShift) and _c(x.right) == 4):
            return False
        l = x.left
        return dotted(l) == CV or (isinstance(l, ast.BinOp) and isinstance(l.op, ast.BitAnd) and dotted(l.left) == CV and _c(l.right) == 0xF0)

    def is_lo(x):
        x = plus_off(x)
        return isinstance(x, ast.BinOp) and isinstance(x.op, ast.BitAnd) and dotted(x.left) == CV and _c(x.right) == 0x0F

    hi = [k for k, v in en.items() if is_hi(v)]
    lo = [k for k, v in en.items() if is_lo(v)]
    ok = len(hi) == 1 and len(lo) == 1 and order == [hi[0], lo[0]]
    ctx.ob("R6", "AGREE", e, "encoder nibble order", ok, f"emits high nibble then low nibble, each plus offset: {ea} appended as {order}")
    da = {dotted(s.targets[0]): src(s.value) for s in statements(d.node) if isinstance(s, ast.Assign)}
    dn = {dotted(s.targets[0]): s.value for s in statements(d.node) if isinstance(s, ast.Assign)}

    def minus_off(x, idx_src):
        return isinstance(x, ast.BinOp) and isinstance(x.op, ast.Sub) and src(x.left) == idx_src and dotted(x.right) == "offset"

    IV = next((dotted(s2.target) for s2 in statements(d.node) if isinstance(s2, ast.For)), "i")
    DP = params(d.node)[0]
    hi_d = [k for k, v in dn.items() if isinstance(v, ast.BinOp) and isinstance(v.op, ast.LShift) and _c(v.right) == 4 and minus_off(v.left, f"{DP}[{IV}]")]
    hi_d += [k for k, v in dn.items() if isinstance(v, ast.BinOp) and isinstance(v.op, ast.Mult) and _c(v.right) == 16 and minus_off(v.left, f"{DP}[{IV}]")]
    lo_d = [k for k, v in dn.items() if minus_off(v, f"{DP}[{IV} + 1]")]
    app = [src(c.args[0]) for c in fn_calls(d.node) if isinstance(c.func, ast.Attribute) and c.func.attr == "append"]
    rng = [src(s.iter) for s in statements(d.node) if isinstance(s, ast.For)]
    ok = len(hi_d) == 1 and len(lo_d) == 1 and app in ([f"{hi_d[0]} + {lo_d[0]}"], [f"{hi_d[0]} | {lo_d[0]}"], [f"{lo_d[0]} + {hi_d[0]}"]) and rng == [f"range(0, len({DP}), 2)"]
    ctx.ob("R6", "AGREE", d, "decoder nibble order", ok, f"even index is the high nibble (<< 4), odd index the low one, each minus offset: {da}; combined as {app}; stride {rng}")
    de, dd = _c(param_defaults(e.node).get("offset")), _c(param_defaults(d.node).get("offset"))
    ctx.ob("R6", "AGREE", e, "default offset", de == dd == 0x41, f"encoder default offset {de}, decoder {dd}")
    for g in (e, d):
        reb = [src(st)[:50] for p_ in params(g.node) for st, v in assignments_to(g.node, p_)]
        ctx.ob("R6", "AGREE", g, "parameters not rebound", not reb, "data and offset are used as given" if not reb else f"a parameter is rewritten before use ({reb}): the codec is no longer exact for every data/offset")
    f = ctx.repo.func("utils.xor")
    reb = [src(st)[:50] for st, v in assignments_to(f.node, params(f.node)[0])]
    ctx.ob("R1", "AGREE", f, "data not rebound", not reb, "xor works on the data as given" if not reb else f"data is rewritten before the XOR ({reb})")
