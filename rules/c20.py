"""C20 - Byte-level codecs and stager URI classification are exact (decidable part).

All rules work on *path terms*: `_paths(fn)` walks the paths of a (small) function symbolically - every local is
substituted by its defining expression over the parameters (flow-sensitive, so rebinding, temporaries, renamed locals,
extracted-and-inlined helpers, flags, early returns vs if/else and De-Morgan variants of tests are invisible), tests are
split at `and`/`or`/`not`, a loop body is walked once over havoc'd loop-carried symbols (list-building loops are
summarised as a fold; a `while` loop is left by its test either before the first iteration or at the end of a last
iteration that started from an arbitrary loop head, so a value carried out of it is the term the last iteration assigned
together with that iteration's conditions; a summing for-loop `acc = 0; for v in IT: [if C:] acc += T` is read as
`sum(T for v in IT [if C])`).  Nothing is ever run on data: branch outcomes stay symbolic, only constant sub-expressions are
folded.  A rule then locates its subject *by role* in the terms ("the length argument of the to_bytes that is returned",
"the classifier call a returned URI passed") and decides the side conditions algebraically: polynomial normal form
(`_P`, on top of `csverif.absint.sympoly`) with `//`, `%`, ceiling division and bit operations as opaque atoms, a small
set of linear facts read off the path conditions (`_Facts`), intervals / interval sets for integer quantities, an
abstract key domain {empty, all-zero, has a non-zero byte}, structural matching of the two nibble terms, and inspection
of the *parsed* regular expression.  Every arithmetic fact that is not a polynomial identity is a lemma listed below.

Verdicts: subject located and condition holds -> discharged; located and the condition fails (the term has one of the
finitely many recognised forms and the algebra shows it differs) -> violated; the terms are outside the recognised
forms -> undecided.

Technique
---------
Device numbers refer to RULES_GUIDE.md, "What counts as static here" (1 syntax tree/resolved callees, 2 CFG paths and
pruning, 3 def-use terms compared structurally / in normal form / by lemma, 4 abstract domains with lemmas, 5 case
analysis over the code's own finite vocabulary, 6 constant folding, regex syntax tree, table comparison).

R1 xor: 2+3 (path terms, roles of the XOR operands by structure), 4 (abstract key domain {E empty, Z all-zero,
   N some byte non-zero} with interval transfer for `len(key)`, `sum(key)`, `any(key)`, `sum(key) % m`, tests of a
   part of the key; linear facts from the path conditions; length algebra of slices and repetitions), 6 (byte order /
   signed constants).  Lemmas: L1-L9, L24.
   Block-wise results (the returned bytes are a concatenation of pieces - `b"".join(P(o) for o in range(..))`, a bytes /
   bytearray / list-of-pieces accumulator filled by one for-loop (analysed once), `P1 + P2` - each piece a term over ONE
   slice data[lo:hi]): 3 (def-use / information flow: the slice is abstracted to an atom and the rest of the piece must be
   a term over that atom, the key and pure builtins, or a call of a plain repository function - xor itself included - with
   such arguments; does that rest read the loop variable?), 4 (start of the j-th slice as a polynomial over the block index
   $j via L22, `% len(key)` expanded by L2; the factor len(key) in every monomial = a multiple of len(key); the end of slice
   j against the start of slice j + 1 in normal form; a recognised rotation `key[r:] + key[:r]` with r = <term> % len(key)
   compared with the slice start modulo len(key)), 1 (callee resolution; a piece helper's own returning paths get the
   obligations of xor's computed result with the slice in the role of the data).  A violation is only claimed when the
   path conditions admit keys of every large length (`_admits_long_keys`: interval transfer of the key domain, sign
   pattern of linear bounds) AND the piece is established to XOR from the first byte of its key operand (those
   obligations all discharged; xor applied to a slice: by the property itself) or, failing that, when one and the same
   position-blind term serves slices whose starts differ by a non-multiple (a $j monomial without the factor).
   Lemma: L27.
R2 pack/unpack: 1+6 (partial chains compared completely with the table the names promise), 3 (returned call located
   by role, pass-through of parameters - a constant `signed` the path conditions fix, a constant byte order on a path of
   at most one byte count as passed through), 5 (case `size is None` / `size is not None` / `size == c` read off the path
   conditions), 4 (minimal byte count in normal form).  Lemma: L10.
   Dependence on `signed` / `byteorder` (every returning path of unpack, `byteorder` for pack): 3 (information flow on the
   path terms: the argument occurs in the returned term - also through a loop-carried value, whose loop is looked at once -
   or in a condition of the path), 4 (interval sets for len(data) and `size` from the path conditions: the largest number
   of bytes the conversion covers on the path; 0 bytes need no `signed`, <= 1 byte no `byteorder`), 5 (size None / given).
   Lemma: L26.
R3 checksum8 / classifiers: 2+3 (path terms; true-alternatives of the classifier value by short-circuit splitting),
   4 (interval sets for `len(text)` and for the checksum value in [0, 255]), 3 (code-point sum recognised
   structurally), 6 (regular expression: syntax tree from CPython's `re._parser`, anchors / repeat counts / character
   classes compared with the table [0-9A-Za-z]; no string is ever matched).  Lemmas: L11-L15.
   The summed items are the code points (inside the checksum8 obligation, `_encoded_sum`): 3 (the argument of the located
   `sum` - also the summary of a summing loop - is, through value-preserving views and an identity comprehension, the bytes
   of an encoding of the text: `S.encode(..)`, `bytes(S, enc)`, `bytearray(S, enc)`, `codecs.encode(S, ..)` with S the text
   with characters removed), 6 (the constant codec name canonicalised with `codecs.lookup` and looked up in the table
   `_ENC_WHY`; no text is ever encoded).  Violated for the codecs of the table, undecided for any other / a non-constant
   codec, another S, or under a path condition on the text that is not a length test (an ASCII fast path).  Lemma: L31.
   Whole-URI coverage of the x64 shape test (own obligation, `_whole_string`): 1 (the call kind match / fullmatch / search of
   the located regex test, module-level `re.compile` constants resolved), 6 (first and last item of the pattern's parse
   tree: `\\A` / `^` / `\\Z` / `$`, re.MULTILINE from the flags and inline flags; membership of the whole tree in the
   backtracking-only subset before a violation is claimed), 5 (string predicates instead of a pattern: the recognised
   len / startswith / isalnum combination).  Lemma: L28.
R4 random_stager_uri: 2+3 (the returned value is the very term that passed the classifier call on its true edge), 5
   (specialised per `x64` = True / False, the flag's own two values), 4 (interval set of the admitted `length`), 3
   (repeat count in polynomial normal form), 6 (alphabet folded from the `string` module constants and compared with the
   table).  Lemma: L16.
R5 staged beacon gate: 2+3 (path conditions carrying a positive classifier call on the request URI; callee
   resolution 1; None / not None of the request 5).
   Stored extraction results (own obligation): 3 (def-use on the path terms: which `self.A` / module-level container is
   assigned, or handed through a mutator call, a term that contains the BeaconConfig.from_* call - through local aliases,
   tuple assignment; the returned term of a path peeled to the state it reads), 1 (other methods of the class that store
   what find_staged_beacon() returned in `self.A`), 2 (the returning paths a known request takes without a positive
   classifier test of its URI), information flow: do the path conditions / the returned term read the request URI at
   all.  Lemma: L29.
   A gate that is not spelled with the classifier calls (own verdict inside the DOM obligation, `_gate_verdict`; before it was
   undecided): 3 (value helpers - `arch = utils.stager_arch(uri)` ... `if arch is None` - are substituted into the test that
   reads their result, per returning path of the helper, `_Exec.inline_operand`; names of a helper of another module are
   resolved in that module), 1 (callee resolution: the request URI's checksum8 becomes the atom $c8), 4 (interval set over
   [0, 255] of the checksum8 values the path conditions admit: comparisons with constants in normal form), 5+6 (membership in
   a constant collection; ONE lookup `T.get($c8[, d])` / `T[$c8]` in a constant module-level table that nothing in the package
   mutates: case analysis over the table's own keys plus "any other value", the test folded per case), 6 (a shape test of the
   URI: the x64 pattern's parse tree judged by the same two functions as the classifier's own, R3, or the len / startswith /
   isalnum / isascii predicates).  Necessary condition: admitted checksum8 values within {92}, or {92, 93} when the path
   establishes the x64 shape.  Violated only when every condition that reads the request is one of these forms (else
   undecided).  Lemmas: L28, L30.
R6 NetBIOS: 2+3 (sequence builder located by role: comprehension or one list-filling loop, analysed once; a repository
   generator function between the data and the builder - `for n in _nibbles(data)` - is resolved (1) and its single
   for-loop walked once by the same path executor, parameters bound to the argument terms: the items it yields per element,
   in order, are substituted for the consumer's loop variable, `_generator_items`; a generator of another shape - yields
   outside the loop, under a test, in a while loop - is undecided), 3+4
   (structural matching of the nibble terms, polynomial normal form of the symbol / decoded-byte terms, affine index
   terms of the decoder under the loop's start/step), 6 (default offsets).  Lemmas: L17-L23.
R7 pack is total on the representable range: 2+3 (the paths of pack that end in `raise` / a failing assert, their
   conditions over the parameters), 5 (cases `signed` / `not signed`, `size is None` / given, the two byte orders
   int.to_bytes knows), 4 (the region of the value parameter a raising path admits as a union of intervals with symbolic
   bounds a*$W + b, $W = 2**(8*size), in polynomial normal form; emptiness of its intersection with the representable
   range [-$W/2, $W/2 - 1] / [0, $W - 1] by the sign of bound differences over the interval $W >= 256).  Lemma: L25.

Lemmas (each is an identity / inequality over the integers; the one-line reason is given):
 L1  len(s * q) == len(s) * q for q >= 0; len(s[:h]) == min(len(s), h) for h >= 0; len(s + t) == len(s) + len(t).
     (definition of sequence repetition, slicing, concatenation)
 L2  k * (n // k + 1) >= n + 1 and k * (n // k) <= n for k >= 1.   (n == k * (n // k) + n % k with 0 <= n % k < k)
 L3  -(-n // k) == ceil(n / k);  n <= k * ceil(n / k) <= n + k - 1 for k >= 1.   (floor(-x) == -ceil(x))
 L4  divmod(a, b) == (a // b, a % b);  x << c == x * 2**c;  x >> c == x // 2**c.   (language definition)
 L5  a term `n // len(s)` that was evaluated without ZeroDivisionError has len(s) != 0, hence len(s) >= 1; a length is >= 0.
 L6  n // k >= 0 and ceil(n / k) >= 0 for n >= 0, k >= 1;  0 <= n % k <= k - 1 for k >= 1.
 L7  byte values are >= 0, so sum(key) == 0 <=> any(key) is False <=> every byte is 0; the empty sum is 0.
 L8  for every m >= 2 there are keys with a non-zero byte whose byte sum is a multiple of m (m bytes of value 1) and
     keys whose sum is not; a test that reads only a part of the key (a slice with constant bounds, one index) has
     both outcomes among the keys with a non-zero byte (put the non-zero byte outside / inside that part).
 L9  k * (n // k) < n whenever k does not divide n: a keystream of that length is shorter than the data.
 L10 (b + 7) // 8 == -(-b // 8) == ceil(b / 8);  b // 8 + 1 == ceil(b / 8) + 1 whenever 8 divides b.
 L11 x % 256 is in [0, 255];  x & 255 == x % 256 for every int x.   (two's complement of Python ints)
 L12 `^`/`$`/`\\A`/`\\Z` are string anchors unless re.MULTILINE turns `^`/`$` into line anchors; re.match anchors the
     start, re.fullmatch both ends, re.search neither.  (`$` also matches before one trailing newline: L28.)
 L13 without re.ASCII `\\d`, `\\w` match non-ASCII characters; `\\w` always matches `_`.   (documented in `re`)
 L14 with re.IGNORECASE and without re.ASCII the letters i, k, s also match U+0130/U+0131, U+212A, U+017F.  (ditto)
 L15 str.isalnum() and str.isascii() hold together exactly for non-empty strings over [0-9A-Za-z]; isalnum() alone
     also holds for non-ASCII letters and digits.
 L16 len(range(a, b)) == b - a for b >= a;  random.choices(pop, k=n) has n elements.
 L17 iterating bytes / bytearray yields ints c with 0 <= c < 256.
 L18 (c & m) >> 4 == c >> 4 for 0 <= c < 256 when m has bits 4..7 set (the shift discards bits 0..3, the mask keeps
     all the others);  c >> 4 == c // 16 is in [0, 15];  c & 15 == c % 16 is in [0, 15].
 L19 c == 16 * (c >> 4) + (c & 15).   (L2 with k = 16)
 L20 (h << 4) | l == (h << 4) + l for 0 <= l < 16.   (no common bits)
 L21 with the encoder symbols x = hi + off, y = lo + off the decoder term 16 * (x - off) + (y - off) is c (L19); any
     other polynomial in x, y, off differs from it for some byte.   (distinct polynomials of degree <= 1 over Z)
 L22 len(range(0, L, 2)) == L // 2 for even L;  the j-th element of range(a, b, s) is a + s * j.
 L23 x & m == x for every int x only if m == -1; x | m == x, x ^ m == x only if m == 0; x % m != x for x >= m.
 L24 i % n == i for 0 <= i < n.   (L2 with quotient 0)
 L25 for a width size >= 1, $W = 2**(8*size) = 256**size = 1 << (8*size) is a multiple of 256 and >= 256, so
     2**(8*size + b) == 2**b * $W for b >= -8 and (c*$W) >> k == (c*$W) // 2**k == (c / 2**k) * $W whenever 2**k divides
     256*c; for a >= 0 the term a*$W + b is non-decreasing in $W, hence >= 256*a + b at every width (dually for a <= 0).
     The integers representable in `size` bytes are [-$W/2, $W/2 - 1] signed and [0, $W - 1] unsigned.   (two's complement)
 L26 int.from_bytes(b, o, signed=True) == int.from_bytes(b, o, signed=False) - (256**len(b) if the most significant byte of
     b is >= 0x80 else 0): the two agree exactly on the empty chunk and on chunks with the top bit clear, and every width
     >= 1 has chunks with the top bit set (what to_bytes(.., signed=True) yields for negative values).  The little- and
     big-endian readings (byte strings) agree for every chunk (value) of a width only when the width is <= 1; from two
     bytes on they differ unless the byte string is a palindrome.   (positional notation, two's complement)
 L27 XOR with the repeating key pairs data byte lo + i with key byte (lo + i) % len(key).  A function of the bytes of
     data[lo:hi] and of the key alone returns equal pieces for equal slices, but for a key with pairwise distinct bytes the
     required piece depends on lo % len(key); so slices that such a function handles must all start at multiples of
     len(key).  No integer m >= 1 is a multiple of every key length (m % L == m != 0 for every L > m, L24), likewise no
     constant rotation error c != 0.  n % k == n - k * (n // k), so n - n % k is a multiple of k (L2).
 L28 (documented in `re`) `\\Z` matches only at len(s); `$` matches at len(s) and also at len(s) - 1 when s ends in a newline,
     under re.MULTILINE before every newline; `\\A` only at 0, `^` at 0 and under re.MULTILINE after every newline.  A
     pattern whose last top-level item is `\\Z` ends every match at len(s); re.match starts every match at 0; re.fullmatch
     does both.  For a pattern built from characters, classes, greedy / lazy repeats, groups and alternation only (pure
     backtracking: a way to match w is a way to match the first len(w) characters of w + x), a match of w that ends in `$`
     is a match of w + "\\n", one that ends in a character position is a match of w + x for every x, and under re.search
     a pattern that does not start with `\\A` / `^` matches x + w.  checksum8 counts the extra characters, and it does
     not exclude them: the sums of four code points of [0-9A-Za-z] are all integers from 192 to 488 (interval sum of
     {48..57, 65..90, 97..122} with itself: 96..244, twice: 192..488), 297 consecutive values, hence every residue modulo
     256 - whatever the extra characters add, some '/' + four alphanumerics + extra has checksum8 93.
 L29 A returning path of find_staged_beacon whose conditions and returned term do not read response.request.uri is taken,
     with the same result, by two responses that differ only in the request URI.  If the returned term reads state in
     which the function (or its caller, from the function's result) stores the BeaconConfig an extraction produced -
     every extraction is behind the gate (first R5 obligation), so that was for a response with a stager URI or an
     unknown request - a later response with a known non-stager request takes the path and is handed that BeaconConfig.
 L30 checksum8 sums the code points of the text without its '/' characters (R3), and a text of four or more characters stays
     that long when a '/' is appended: checksum8(u + "/") == checksum8(u) for len(u) >= 4.  u + "/" is never '/' + four
     alphanumerics (six characters for such a u; a trailing '/' otherwise).  So for every checksum8 value that some URI of
     four or more characters has - by L28 all of 0..255, each by some '/' + four alphanumerics - there is a URI with that
     value and the x64 shape and another one with that value and without it: a condition on checksum8(uri) alone cannot
     imply `checksum8(uri) == 93 and shape`, and is_stager_x86 does not accept 93.  Conditions of a path that do not read
     the request are taken to be independent of its URI.
 L31 The bytes of an encoding of a str are its code points only for ASCII text: UTF-8 writes a character c in
     [U+0080, U+07FF] as (0xC0 | c >> 6, 0x80 | c & 63), byte sum 320 + (c >> 6) + (c & 63) against c = 64 * (c >> 6) +
     (c & 63) - for U+00E9: C3 A9, 364 = 108 (mod 256), not 233; ASCII / Latin-1 have no byte for characters from U+0080 /
     U+0100 on (the error handler raises, drops or substitutes); UTF-16 / UTF-32 write U+0100 as the bytes 00 01 [00 00] in
     some order, sum 1, not 256 = 0 (mod 256), the variants without -le / -be also a byte order mark.  A str that holds
     such a character therefore gets another checksum8 (or an exception) than the code point sum.   (codec definitions)
"""

from __future__ import annotations

import ast
import codecs
import copy
import itertools
import re
from fractions import Fraction

from csverif.absint import Itv, SymPoly, sympoly
from csverif.astutil import const_eval, dotted, NotConst, param_defaults, params, src


def _c(node):
    try:
        return const_eval(node) if node is not None else None
    except (NotConst, TypeError):
        return None


# ===================================================================================================== constant folder
# Folds *constant* expressions of the analysed code (device 6).  The only names it knows are reference constants of the
# standard library handed in by the caller (`string.ascii_letters`, `re.ASCII`, ..); parameters, locals and symbols are
# never given values, so no expression is ever evaluated on data.
class _NoEval(Exception):
    """The expression is not a constant expression of the modelled pure subset."""


class _Raises(_NoEval):
    """The constant expression is modelled and folding it raises."""


_BIN = {
    ast.Add: lambda a, b: a + b, ast.Sub: lambda a, b: a - b, ast.Mult: lambda a, b: a * b, ast.FloorDiv: lambda a, b: a // b,
    ast.Mod: lambda a, b: a % b, ast.BitOr: lambda a, b: a | b, ast.BitAnd: lambda a, b: a & b, ast.BitXor: lambda a, b: a ^ b,
    ast.LShift: lambda a, b: a << b, ast.RShift: lambda a, b: a >> b, ast.Div: lambda a, b: a / b,
}
_CMP = {
    ast.Eq: lambda a, b: a == b, ast.NotEq: lambda a, b: a != b, ast.Lt: lambda a, b: a < b, ast.LtE: lambda a, b: a <= b,
    ast.Gt: lambda a, b: a > b, ast.GtE: lambda a, b: a >= b, ast.Is: lambda a, b: a is b, ast.IsNot: lambda a, b: a is not b,
    ast.In: lambda a, b: a in b, ast.NotIn: lambda a, b: a not in b,
}
_SEQ = (bytes, bytearray, str, list, tuple, range)
_BIG = 1 << 16

_FUNCS = {
    "len": len, "min": min, "max": max, "abs": abs, "int": int, "bool": bool, "range": range, "sum": sum,
    "bytes": bytes, "bytearray": bytearray, "list": list, "tuple": tuple, "ord": ord, "chr": chr,
    "set": set, "frozenset": frozenset, "sorted": sorted, "str": str,
}
_METHODS = {"upper": (str, bytes), "lower": (str, bytes), "strip": (bytes, bytearray, str), "replace": (bytes, bytearray, str)}


def _fold(e, consts=None):
    """Value of a constant expression (`consts`: placeholder name -> value of a standard-library reference constant).
    Raises _NoEval when the expression is not constant / outside the modelled subset, _Raises when folding raises."""
    try:
        return _fold1(e, consts or {})
    except _NoEval:
        raise
    except (ZeroDivisionError, IndexError, KeyError, TypeError, ValueError, OverflowError, AttributeError) as x:
        raise _Raises(f"{type(x).__name__}: {x}")
    except (RecursionError, MemoryError):
        raise _NoEval("too large")


def _fold1(e, env):
    if isinstance(e, ast.Constant):
        return e.value
    if isinstance(e, ast.Name):
        if e.id in env:
            return env[e.id]
        raise _NoEval(e.id)
    if isinstance(e, (ast.Tuple, ast.List, ast.Set)):
        if any(isinstance(x, ast.Starred) for x in e.elts):
            raise _NoEval("starred")
        vals = [_fold1(x, env) for x in e.elts]
        return tuple(vals) if isinstance(e, ast.Tuple) else list(vals) if isinstance(e, ast.List) else set(vals)
    if isinstance(e, ast.Dict):
        if any(k is None for k in e.keys):
            raise _NoEval("dict unpacking")
        return {_fold1(k, env): _fold1(v, env) for k, v in zip(e.keys, e.values)}
    if isinstance(e, ast.UnaryOp):
        v = _fold1(e.operand, env)
        if isinstance(e.op, ast.Not):
            return not v
        if isinstance(e.op, ast.USub):
            return -v
        if isinstance(e.op, ast.UAdd):
            return +v
        return ~v
    if isinstance(e, ast.BinOp):
        if type(e.op) not in _BIN:
            raise _NoEval(src(e))
        a, b = _fold1(e.left, env), _fold1(e.right, env)
        if isinstance(e.op, ast.Mult) and ((isinstance(a, _SEQ) and isinstance(b, int) and b * max(len(a), 1) > _BIG) or (isinstance(b, _SEQ) and isinstance(a, int) and a * max(len(b), 1) > _BIG)):
            raise _NoEval("too large")
        if isinstance(e.op, ast.LShift) and isinstance(b, int) and b > 256:
            raise _NoEval("too large")
        return _BIN[type(e.op)](a, b)
    if isinstance(e, ast.BoolOp):
        v = None
        for x in e.values:
            v = _fold1(x, env)
            if isinstance(e.op, ast.And) and not v:
                return v
            if isinstance(e.op, ast.Or) and v:
                return v
        return v
    if isinstance(e, ast.Compare):
        l = _fold1(e.left, env)
        for op, r in zip(e.ops, e.comparators):
            rv = _fold1(r, env)
            if not _CMP[type(op)](l, rv):
                return False
            l = rv
        return True
    if isinstance(e, ast.IfExp):
        return _fold1(e.body, env) if _fold1(e.test, env) else _fold1(e.orelse, env)
    if isinstance(e, ast.Subscript):
        base = _fold1(e.value, env)
        if not isinstance(base, _SEQ + (dict,)):
            raise _NoEval(src(e))
        if isinstance(e.slice, ast.Slice):
            lo, hi, st = (None if x is None else _fold1(x, env) for x in (e.slice.lower, e.slice.upper, e.slice.step))
            return base[lo:hi:st]
        return base[_fold1(e.slice, env)]
    if isinstance(e, ast.Call):
        if any(isinstance(a, ast.Starred) for a in e.args) or e.keywords:
            raise _NoEval("starred / keywords")
        name = dotted(e.func)
        if name in _FUNCS and name not in env:
            args = [_fold1(a, env) for a in e.args]
            if name == "range" and len(range(*args)) > _BIG:
                raise _NoEval("too large")
            if name in ("bytes", "bytearray") and args and isinstance(args[0], int) and args[0] > _BIG:
                raise _NoEval("too large")
            return _FUNCS[name](*args)
        if isinstance(e.func, ast.Attribute) and e.func.attr in _METHODS:
            recv = _fold1(e.func.value, env)
            if isinstance(recv, _METHODS[e.func.attr]) and not isinstance(recv, bool):
                return getattr(recv, e.func.attr)(*[_fold1(a, env) for a in e.args])
        raise _NoEval(src(e))
    raise _NoEval(type(e).__name__)


def _truth(e):
    """Truth value of a *constant* test: True / False, None when the test is not constant, "raises" when folding it raises."""
    try:
        return bool(_fold(e))
    except _Raises:
        return "raises"
    except _NoEval:
        return None


class _Abstract(ast.NodeTransformer):
    """Replace every sub-expression whose text is a key of `binds` by the placeholder name bound to it, so that e.g. a
    classifier call or `checksum8(uri)` becomes one atom of the algebra."""

    def __init__(self, binds):
        self.binds = binds

    def visit(self, node):
        if isinstance(node, ast.expr):
            k = self.binds.get(src(node))
            if k is not None:
                return ast.Name(id=k, ctx=ast.Load())
        return super().visit(node)


def _abstract(e, binds):
    return _Abstract(binds).visit(copy.deepcopy(e))


def _names(e):
    return {n.id for n in ast.walk(e) if isinstance(n, ast.Name)}


def _k(e):
    """Structural key of a term; two call nodes are the same value only when they stem from the same evaluation of the
    same call site (`_site` tags set by the path executor)."""
    if isinstance(e, ast.AST):
        return (type(e).__name__, getattr(e, "_site", None)) + tuple(_k(getattr(e, f, None)) for f in e._fields if f != "ctx")
    if isinstance(e, list):
        return tuple(_k(x) for x in e)
    return e


# ===================================================================================================== algebra
# Polynomial normal form with opaque atoms for the operations that are not polynomial, interval sets, and a tiny prover
# for `P >= 0` from linear facts and the lemmas L2-L6.
class _NoPoly(Exception):
    pass


_ONE = SymPoly.const(1)
_DIVS = {}  # atom name -> (kind "fd" floor division | "cd" ceiling division | "md" modulo, N, K) as polynomials
_BITS = {}  # atom name -> (tag "band" | "bor" | "bxor", A, B)


def _int_const(p):
    c = p.const_value()
    return int(c) if c is not None and c.denominator == 1 else None


def _div_atom(kind, n, k):
    cn, ck = _int_const(n), _int_const(k)
    if cn is not None and ck is not None and ck != 0:  # constant folding
        return SymPoly.const({"fd": cn // ck, "md": cn % ck, "cd": -(-cn // ck)}[kind])
    name = f"{kind}({n!r}, {k!r})"
    _DIVS[name] = (kind, n, k)
    return SymPoly.atom(name)


def _P(e, lenf=None):
    """Polynomial normal form of an integer term (None when the term is not arithmetic).  `a // b`, `a % b`,
    `-(-a // b)`, `divmod(a, b)[i]` become atoms fd/md/cd over the normal forms of their operands (L3, L4), shifts by a
    constant become multiplication / floor division by a power of two (L4), `&`, `|`, `^` become commutative opaque
    atoms, `len(t)` is resolved by `lenf` (length algebra) when given, any other call / attribute / index is an atom
    named by its text."""

    def P(x):
        r = sympoly(x, sub)
        if r is None:
            raise _NoPoly(src(x))
        return r

    def sub(n):
        if isinstance(n, ast.UnaryOp):
            if isinstance(n.op, ast.UAdd):
                return P(n.operand)
            o = n.operand
            if isinstance(n.op, ast.USub) and isinstance(o, ast.BinOp) and isinstance(o.op, ast.FloorDiv) and isinstance(o.left, ast.UnaryOp) and isinstance(o.left.op, ast.USub):
                return _div_atom("cd", P(o.left.operand), P(o.right))
            return None
        if isinstance(n, ast.BinOp):
            if isinstance(n.op, ast.FloorDiv):
                return _div_atom("fd", P(n.left), P(n.right))
            if isinstance(n.op, ast.Mod):
                return _div_atom("md", P(n.left), P(n.right))
            if isinstance(n.op, (ast.LShift, ast.RShift)):
                k = _c(n.right)
                if not isinstance(k, int) or isinstance(k, bool) or not 0 <= k <= 64:
                    raise _NoPoly(src(n))
                return P(n.left) * SymPoly.const(2 ** k) if isinstance(n.op, ast.LShift) else _div_atom("fd", P(n.left), SymPoly.const(2 ** k))
            if isinstance(n.op, (ast.BitAnd, ast.BitOr, ast.BitXor)):
                tag = {ast.BitAnd: "band", ast.BitOr: "bor", ast.BitXor: "bxor"}[type(n.op)]
                a, b = sorted((P(n.left), P(n.right)), key=repr)
                name = f"{tag}({a!r}, {b!r})"
                _BITS[name] = (tag, a, b)
                return SymPoly.atom(name)
            return None
        if isinstance(n, ast.Subscript):
            v = n.value
            if isinstance(v, ast.Call) and dotted(v.func) == "divmod" and len(v.args) == 2 and not v.keywords and isinstance(n.slice, ast.Constant) and n.slice.value in (0, 1) and not isinstance(n.slice.value, bool):
                return _div_atom("fd" if n.slice.value == 0 else "md", P(v.args[0]), P(v.args[1]))
            if isinstance(n.slice, ast.Slice):
                raise _NoPoly(src(n))
            return SymPoly.atom(src(n))
        if isinstance(n, ast.Call) and dotted(n.func) == "len" and len(n.args) == 1 and not n.keywords:
            r = lenf(n.args[0]) if lenf is not None else None
            return r if r is not None else SymPoly.atom(src(n))
        return None

    try:
        return P(e)
    except _NoPoly:
        return None


_INF = float("inf")


def _iv_norm(ivs):
    """Interval set (sorted disjoint closed integer intervals, bounds may be +-inf)."""
    out = []
    for lo, hi in sorted((lo, hi) for lo, hi in ivs if lo <= hi and lo != _INF and hi != -_INF):
        if out and lo <= out[-1][1] + 1:
            out[-1] = (out[-1][0], max(out[-1][1], hi))
        else:
            out.append((lo, hi))
    return out


def _iv_and(a, b):
    return _iv_norm([(max(l1, l2), min(h1, h2)) for l1, h1 in a for l2, h2 in b])


def _iv_or(a, b):
    return _iv_norm(list(a) + list(b))


def _iv_not(a, dom):
    out, lo = [], dom[0]
    for l, h in _iv_norm(a):
        out.append((lo, l - 1))
        lo = h + 1
    out.append((lo, dom[1]))
    return _iv_and(out, [dom])


def _iv_cmp(op, c, dom):
    """{v in dom : v op c}"""
    t = {ast.Eq: [(c, c)], ast.NotEq: [(-_INF, c - 1), (c + 1, _INF)], ast.Lt: [(-_INF, c - 1)], ast.LtE: [(-_INF, c)], ast.Gt: [(c + 1, _INF)], ast.GtE: [(c, _INF)]}[op]
    return _iv_and(t, [dom])


def _iv_text(a):
    return " u ".join(f"{lo}" if lo == hi else f"[{lo}, {hi}]" for lo, hi in a) or "{}"


_OPS6 = (ast.Eq, ast.NotEq, ast.Lt, ast.LtE, ast.Gt, ast.GtE)
_FLIP = {ast.Lt: ast.Gt, ast.LtE: ast.GtE, ast.Gt: ast.Lt, ast.GtE: ast.LtE, ast.Eq: ast.Eq, ast.NotEq: ast.NotEq}


def _cmp_poly(a, lenf=None):
    """A test as `d op 0` with d in polynomial normal form -> (d, op type); a bare integer term t is `t != 0`."""
    if isinstance(a, ast.Compare):
        if len(a.ops) != 1 or type(a.ops[0]) not in _OPS6:
            return None
        l, r = _P(a.left, lenf), _P(a.comparators[0], lenf)
        if l is None or r is None:
            return None
        return l - r, type(a.ops[0])
    p = _P(a, lenf)
    return None if p is None else (p, ast.NotEq)


def _int_test(a):
    """A test over ONE integer atom with coefficient +-1 -> (atom, op type, integer constant) with a <=> atom op constant
    (mirrored comparisons, constants on either side and `x - c op 0` spellings all arrive here in the same form)."""
    r = _cmp_poly(a)
    if r is None:
        return None
    d, op = r
    keys = [k for k in d.terms if k != ()]
    if len(keys) != 1 or len(keys[0]) != 1:
        return None
    coef, c = d.terms[keys[0]], d.terms.get((), Fraction(0))
    if coef not in (1, -1) or c.denominator != 1:
        return None
    if coef == 1:
        return keys[0][0], op, int(-c)  # x + c op 0  <=>  x op -c
    return keys[0][0], _FLIP[op], int(c)  # -x + c op 0  <=>  x flip(op) c


def _atom_set(a, atom, dom):
    """Interval set of the values of the integer atom for which test `a` holds; None when `a` is not such a test."""
    t = _int_test(a)
    if t is None or t[0] != atom:
        return None
    return _iv_cmp(t[1], t[2], dom)


class _Facts:
    """Polynomials known to be >= 0 on a path (read off its conditions) and a prover for `P >= 0` that uses them, the
    non-negativity of lengths and the division lemmas L2, L3, L5, L6.  `seqs`: names that denote byte sequences."""

    def __init__(self, seqs):
        self.seqs = set(seqs)
        self.ge = []
        self.unknown = []  # conditions that mention a sequence but are not linear facts

    def add_cond(self, a, pol):
        if isinstance(a, ast.Name) and a.id in self.seqs:  # truthiness of a sequence: len != 0
            ln = SymPoly.atom(f"len({a.id})")
            self.ge.append(ln - _ONE if pol else -ln)
            return
        r = _cmp_poly(a, self.len_poly) if not isinstance(a, ast.Name) else None
        if r is None:
            if any(_mentions(a, s) for s in self.seqs):
                self.unknown.append(a)
            return
        d, op = r
        if not pol:
            op = {ast.Lt: ast.GtE, ast.LtE: ast.Gt, ast.Gt: ast.LtE, ast.GtE: ast.Lt, ast.Eq: ast.NotEq, ast.NotEq: ast.Eq}[op]
        if op is ast.Lt:
            self.ge.append(-d - _ONE)
        elif op is ast.LtE:
            self.ge.append(-d)
        elif op is ast.Gt:
            self.ge.append(d - _ONE)
        elif op is ast.GtE:
            self.ge.append(d)
        elif op is ast.Eq:
            self.ge.extend([d, -d])

    def mentions(self, atom):
        return any(atom in f.atoms() for f in self.ge)

    def _pos(self, k, depth):
        c = k.const_value()
        if c is not None:
            return c >= 1
        keys = list(k.terms)
        if len(keys) == 1 and len(keys[0]) == 1 and keys[0][0].startswith("len(") and k.terms[keys[0]] == 1:
            return True  # L5: an evaluated division by a length has a divisor >= 1
        return self.ge0(k - _ONE, depth + 1) is True

    def _lemmas(self, p, depth):
        out = []
        for name in sorted(p.atoms()):
            a = SymPoly.atom(name)
            if name.startswith("len("):
                out.append(a)  # L5: a length is >= 0
            d = _DIVS.get(name)
            if d is None:
                continue
            kind, n, k = d
            if not self._pos(k, depth):
                continue
            if kind == "fd":
                out += [k * a + k - n - _ONE, n - k * a]  # L2
            elif kind == "cd":
                out += [k * a - n, n + k - _ONE - k * a]  # L3
            else:
                out += [a, k - _ONE - a]  # L6
            if kind != "md" and self.ge0(n, depth + 1) is True:
                out.append(a)  # L6
        return out

    def ge0(self, p, depth=0):
        """True when `p >= 0` follows; None otherwise (nothing is claimed)."""
        c = p.const_value()
        if c is not None:
            return True if c >= 0 else None
        if depth > 2:
            return None
        facts = list(self.ge) + self._lemmas(p, depth)

        def nonneg_const(q):
            v = q.const_value()
            return v is not None and v >= 0

        for f in facts:
            if nonneg_const(p - f):
                return True
        for i, f1 in enumerate(facts):
            for f2 in facts[i:]:
                if nonneg_const(p - f1 - f2):
                    return True
        return None

    def len_poly(self, t):
        """Length of a byte-sequence term in normal form (L1), None when the term / a needed side condition is unknown."""
        t = _strip_view(t)
        if isinstance(t, ast.Name):
            return SymPoly.atom(f"len({t.id})") if t.id in self.seqs else None
        if isinstance(t, ast.Constant) and isinstance(t.value, (bytes, str)):
            return SymPoly.const(len(t.value))
        if isinstance(t, ast.BinOp) and isinstance(t.op, ast.Mult):
            for s, q in ((t.left, t.right), (t.right, t.left)):
                ls = self.len_poly(s)
                if ls is None:
                    continue
                pq = _P(q, self.len_poly)
                if pq is None or self.ge0(pq) is not True:
                    return None
                return ls * pq
            return None
        if isinstance(t, ast.BinOp) and isinstance(t.op, ast.Add):
            a, b = self.len_poly(t.left), self.len_poly(t.right)
            return None if a is None or b is None else a + b
        if isinstance(t, ast.Subscript) and isinstance(t.slice, ast.Slice):
            sl = t.slice
            if (sl.lower is not None and _c(sl.lower) != 0) or (sl.step is not None and _c(sl.step) != 1):
                return None
            lx = self.len_poly(t.value)
            if lx is None or sl.upper is None:
                return lx
            h = _P(sl.upper, self.len_poly)
            if h is None or self.ge0(h) is not True:
                return None
            if self.ge0(lx - h) is True:
                return h
            if self.ge0(h - lx) is True:
                return lx
            return None
        return None


def _facts_of(conds, seqs):
    f = _Facts(seqs)
    for a, pol in conds:
        f.add_cond(_unview(a, seqs), pol)
    return f


def _scale(iv, c):
    if c == 0:
        return Itv.const(0)
    lo = None if iv.lo is None else iv.lo * c
    hi = None if iv.hi is None else iv.hi * c
    return Itv(lo, hi) if c > 0 else Itv(hi, lo)


def _decide(iv, op):
    """Truth of `v op 0` for all v in the interval: "T", "F" or "B" (both outcomes occur inside the interval)."""
    lo = -_INF if iv.lo is None else iv.lo
    hi = _INF if iv.hi is None else iv.hi
    t, f = {
        ast.Eq: (lo == hi == 0, lo > 0 or hi < 0), ast.NotEq: (lo > 0 or hi < 0, lo == hi == 0),
        ast.Lt: (hi < 0, lo >= 0), ast.LtE: (hi <= 0, lo > 0), ast.Gt: (lo > 0, hi <= 0), ast.GtE: (lo >= 0, hi < 0),
    }[op]
    return "T" if t else "F" if f else "B"


def _lin_test(a, iv_of):
    """Three-valued outcome of a test whose normal form is linear over atoms with known intervals (`iv_of(atom)` ->
    (Itv, reads-key-content) | None | "R"): ("T"|"F"|"B", reads-key-content), "R" (evaluating the test raises) or None."""
    r = _cmp_poly(a)
    if r is None:
        return None
    d, op = r
    tot, content = Itv.const(0), False
    for k, coef in d.terms.items():
        if coef.denominator != 1 or len(k) > 1:
            return None
        if k == ():
            tot = tot + Itv.const(int(coef))
            continue
        v = iv_of(k[0])
        if v is None or v == "R":
            return v
        tot = tot + _scale(v[0], int(coef))
        content = content or v[1]
    return _decide(tot, op), content


def _atom_node(name):
    try:
        return ast.parse(name, mode="eval").body
    except SyntaxError:
        return None


# ===================================================================================================== path executor
class _Unsupported(Exception):
    pass


class _St:
    __slots__ = ("env", "conds", "events", "visited", "end")

    def __init__(self, env=None, conds=None, events=None, visited=None):
        self.env = env if env is not None else {}
        self.conds = conds if conds is not None else []
        self.events = events if events is not None else []
        self.visited = visited if visited is not None else []
        self.end = None

    def fork(self):
        return _St(dict(self.env), list(self.conds), list(self.events), list(self.visited))

    def add(self, conds):
        """Add path conditions; False when they contradict the path so far."""
        for a, pol in conds:
            ka = _k(a)
            for b, p2 in self.conds:
                if _k(b) == ka:
                    if p2 != pol:
                        return False
                    break
            else:
                self.conds.append((a, pol))
        return True


_MUTATORS = {"insert", "pop", "remove", "reverse", "sort", "clear", "update", "add", "discard", "setdefault", "popitem", "appendleft"}


def _target_names(t):
    if isinstance(t, ast.Name):
        return [t.id]
    if isinstance(t, (ast.Tuple, ast.List)):
        return [n for x in t.elts for n in _target_names(x)]
    if isinstance(t, ast.Starred):
        return _target_names(t.value)
    return []


def _assigned(stmts):
    """Local names (re)bound or mutated in place by the statements."""
    out = set()
    for st in stmts:
        for n in ast.walk(st):
            if isinstance(n, ast.Assign):
                for t in n.targets:
                    out.update(_target_names(t))
                    if isinstance(t, ast.Subscript) and isinstance(t.value, ast.Name):
                        out.add(t.value.id)
            elif isinstance(n, (ast.AugAssign, ast.AnnAssign)):
                out.update(_target_names(n.target))
                if isinstance(n.target, ast.Subscript) and isinstance(n.target.value, ast.Name):
                    out.add(n.target.value.id)
            elif isinstance(n, (ast.For, ast.AsyncFor)):
                out.update(_target_names(n.target))
            elif isinstance(n, ast.NamedExpr):
                out.update(_target_names(n.target))
            elif isinstance(n, (ast.With, ast.AsyncWith)):
                for it in n.items:
                    if it.optional_vars is not None:
                        out.update(_target_names(it.optional_vars))
            elif isinstance(n, ast.ExceptHandler) and n.name:
                out.add(n.name)
            elif isinstance(n, ast.Expr) and isinstance(n.value, ast.Call) and isinstance(n.value.func, ast.Attribute) and isinstance(n.value.func.value, ast.Name):
                if n.value.func.attr in _MUTATORS or n.value.func.attr in ("append", "extend"):
                    out.add(n.value.func.value.id)
    return out


def _ancestors_of(root, node):
    """The nodes strictly between `root` (inclusive) and `node` (exclusive) on the path down to `node`; [] if absent."""
    path = []

    def down(n):
        if n is node:
            return True
        for c in ast.iter_child_nodes(n):
            path.append(n)
            if down(c):
                return True
            path.pop()
        return False

    return list(path) if down(root) else []


def _replace_node(root, node, repl):
    """A copy of term `root` in which the sub-term `node` (by identity) is replaced by a copy of `repl`."""
    node._mark = True
    try:
        out = copy.deepcopy(root)
    finally:
        del node._mark

    class R(ast.NodeTransformer):
        def visit(self, n):
            if getattr(n, "_mark", False):
                return copy.deepcopy(repl)
            return self.generic_visit(n)

    return R().visit(out)


class _Loop:
    def __init__(self, stmt, k):
        self.stmt, self.k = stmt, k
        self.pre = {}  # name -> term before the loop
        self.head = {}  # name -> symbol name at the loop head
        self.iter = None  # substituted iterable (for loops)
        self.iters = []  # states at the end of one complete iteration
        self.exits = 0  # break / return / raise paths out of the body
        self.nconds = 0  # number of path conditions at the loop head (the later ones of an iteration belong to the body)


class _Exec:
    MAX = 600

    def __init__(self, fn, preset=None, resolver=None, depth=0, home=None):
        self.fn = fn
        self.resolver, self.depth = resolver, depth
        self.home = home  # an inlined helper: name of the module in whose namespace its global names live
        self.preset = dict(preset or {})
        self.sites = itertools.count(1)
        self.syms = itertools.count(1)
        self.loops = {}
        self.locals = _assigned(fn.body) | set(params(fn))

    # ------------------------------------------------------------------ expressions
    def sub(self, e, st):
        ex = self

        class S(ast.NodeTransformer):
            def __init__(self):
                self.shadow = []

            def shadowed(self, n):
                return any(n in s for s in self.shadow)

            def visit_Name(self, n):
                if isinstance(n.ctx, ast.Load) and n.id in st.env and not self.shadowed(n.id):
                    return copy.deepcopy(st.env[n.id])
                if ex.home is not None and isinstance(n.ctx, ast.Load) and n.id not in ex.locals and not self.shadowed(n.id):
                    n._home = ex.home  # a global name of an inlined helper: resolved in the helper's module (`_home_of`)
                return n

            def visit_Call(self, n):
                n._site = next(ex.sites)
                self.generic_visit(n)
                return n

            def visit_NamedExpr(self, n):
                v = self.visit(n.value)
                if isinstance(n.target, ast.Name) and not self.shadowed(n.target.id):
                    st.env[n.target.id] = v
                return v

            def visit_IfExp(self, n):
                self.generic_visit(n)
                t = _truth(n.test)
                if t is True:
                    return n.body
                if t is False:
                    return n.orelse
                return n

            def _comp(self, n):
                names = set()
                for g in n.generators:
                    names.update(_target_names(g.target))
                first = n.generators[0]
                first.iter = self.visit(first.iter)
                self.shadow.append(names)
                for i, g in enumerate(n.generators):
                    if i:
                        g.iter = self.visit(g.iter)
                    g.ifs = [self.visit(c) for c in g.ifs]
                if isinstance(n, ast.DictComp):
                    n.key, n.value = self.visit(n.key), self.visit(n.value)
                else:
                    n.elt = self.visit(n.elt)
                self.shadow.pop()
                return n

            visit_ListComp = visit_GeneratorExp = visit_SetComp = visit_DictComp = _comp

            def visit_Lambda(self, n):
                self.shadow.append(set(params(n)))
                n.body = self.visit(n.body)
                self.shadow.pop()
                return n

        return S().visit(copy.deepcopy(e))

    def split(self, t):
        """Decision alternatives of a (substituted) test: [(conditions, outcome)] with short-circuit semantics."""
        if isinstance(t, ast.UnaryOp) and isinstance(t.op, ast.Not):
            return [(c, not o) for c, o in self.split(t.operand)]
        if isinstance(t, ast.BoolOp):
            stop = not isinstance(t.op, ast.And)  # the outcome that short-circuits
            alts = [([], not stop)]
            for v in t.values:
                new = []
                for c, o in alts:
                    if o == stop:
                        new.append((c, o))
                    else:
                        new.extend((c + c2, o2) for c2, o2 in self.split(v))
                alts = new
            return alts
        if isinstance(t, ast.Call) and dotted(t.func) == "bool" and len(t.args) == 1 and not t.keywords:
            return self.split(t.args[0])
        v = _truth(t)
        if v in (True, False):
            return [([], v)]
        inl = self.inline_test(t)
        if inl is not None:
            return inl
        inl = self.inline_operand(t)
        if inl is not None:
            return inl
        return [([(t, True)], True), ([(t, False)], False)]

    def helper_paths(self, call):
        """Returning paths of the small repository helper that `call` invokes (`self.resolver(call)` -> (function node,
        skip-self, home module)), its parameters bound to the argument terms; None when the call is not such a call."""
        if self.resolver is None or not isinstance(call, ast.Call) or self.depth >= 3:
            return None
        r = self.resolver(call)
        if r is None:
            return None
        fn, skip, home = r
        a = fn.args
        if a.vararg or a.kwarg or any(isinstance(x, ast.Starred) for x in call.args) or any(k.arg is None for k in call.keywords):
            return None
        names = [x.arg for x in a.posonlyargs + a.args][(1 if skip else 0):]
        preset = {}
        if len(call.args) > len(names):
            return None
        for n, x in zip(names, call.args):
            preset[n] = x
        for k in call.keywords:
            if k.arg in preset or k.arg not in names + [x.arg for x in a.kwonlyargs]:
                return None
            preset[k.arg] = k.value
        dflt = param_defaults(fn)
        for n in names + [x.arg for x in a.kwonlyargs]:
            if n not in preset:
                if n not in dflt:
                    return None
                preset[n] = dflt[n]
        sub = _Exec(fn, preset, self.resolver, self.depth + 1, home)
        sub.sites, sub.syms = self.sites, self.syms
        try:
            states = sub.run()
        except (_Unsupported, RecursionError):
            return None
        if sub.loops or not states:
            return None
        return states

    def inline_test(self, call):
        """A test that is a call of a small repository helper: the helper's own returning paths, with its parameters
        bound to the argument terms, replace the opaque call."""
        states = self.helper_paths(call)
        if states is None or any(b.end[0] != "return" or b.end[1] is None for b in states):
            return None
        out = []
        for b in states:
            for c2, o2 in self.split(b.end[1]):
                out.append((list(b.conds) + c2, o2))
        return out if len(out) <= 32 else None

    def inline_operand(self, t):
        """A test that *contains* a call of a small repository helper (`h(x) is None`, `h(x) == "a"`, `h(x) in T` - the
        helper hands back a value, not a verdict): per returning path of the helper, its conditions and the test with the
        call replaced by the value that path returns (a path that returns nothing: None).  The first such call in
        evaluation order only; the others are reached by the recursion through `split`."""
        if self.resolver is None or self.depth >= 3 or isinstance(t, ast.Call) and self.resolver(t) is not None:
            return None
        if isinstance(t, ast.Compare):
            operands = [t.left] + list(t.comparators)
        elif isinstance(t, ast.Call) and isinstance(t.func, ast.Attribute):
            operands = [t.func.value] + list(t.args)
        elif isinstance(t, ast.Call):
            operands = list(t.args)
        else:
            return None
        for x in operands:
            for call in ([x] if isinstance(x, ast.Call) else []) + [n for n in ast.walk(x) if isinstance(n, ast.Call) and n is not x]:
                if any(isinstance(p, (ast.Lambda, ast.GeneratorExp, ast.ListComp, ast.SetComp, ast.DictComp, ast.IfExp, ast.BoolOp)) for p in _ancestors_of(t, call)):
                    continue  # not evaluated exactly once on every evaluation of the test
                states = self.helper_paths(call)
                if states is None:
                    continue
                if any(b.end[0] not in ("return", "fall") for b in states):
                    return None
                out = []
                for b in states:
                    v = b.end[1] if b.end[1] is not None else ast.Constant(value=None)
                    for c2, o2 in self.split(_replace_node(t, call, v)):
                        out.append((list(b.conds) + c2, o2))
                return out if len(out) <= 32 else None
        return None

    def values(self, v, st):
        """(state, value) alternatives of an already substituted value: a top-level conditional expression forks."""
        if isinstance(v, ast.IfExp):
            out = []
            for c, o in self.split(v.test):
                s2 = st.fork()
                if s2.add(c):
                    out.extend(self.values(v.body if o else v.orelse, s2))
            return out
        return [(st, v)]

    # ------------------------------------------------------------------ statements
    def bind(self, t, v, st):
        if isinstance(t, ast.Name):
            st.env[t.id] = v
        elif isinstance(t, (ast.Tuple, ast.List)) and not any(isinstance(x, ast.Starred) for x in t.elts):
            if isinstance(v, (ast.Tuple, ast.List)) and len(v.elts) == len(t.elts) and not any(isinstance(x, ast.Starred) for x in v.elts):
                for x, y in zip(t.elts, v.elts):
                    self.bind(x, y, st)
            else:
                for i, x in enumerate(t.elts):
                    self.bind(x, ast.Subscript(value=copy.deepcopy(v), slice=ast.Constant(value=i), ctx=ast.Load()), st)
        elif isinstance(t, ast.Subscript) and isinstance(t.value, ast.Name):
            st.env[t.value.id] = ast.Call(func=ast.Name(id="$mut", ctx=ast.Load()), args=[st.env.get(t.value.id, t.value)], keywords=[])
        else:
            for n in _target_names(t):
                st.env[n] = ast.Name(id=f"{n}@{next(self.syms)}", ctx=ast.Load())

    def block(self, stmts, states):
        for s in stmts:
            out = []
            for st in states:
                if st.end is not None:
                    out.append(st)
                else:
                    out.extend(self.stmt(s, st))
            states = out
            if len(states) > self.MAX:
                raise _Unsupported("too many paths")
        return states

    def stmt(self, s, st):
        st.visited.append(s)
        if isinstance(s, (ast.Assign, ast.AnnAssign)):
            if s.value is None:
                return [st]
            out = []
            for s2, v in self.values(self.sub(s.value, st), st):
                s2.events.append((s, v))
                for t in (s.targets if isinstance(s, ast.Assign) else [s.target]):
                    self.bind(t, v, s2)
                out.append(s2)
            return out
        if isinstance(s, ast.AugAssign):
            v = self.sub(s.value, st)
            st.events.append((s, v))
            if isinstance(s.target, ast.Name):
                cur = st.env.get(s.target.id, ast.Name(id=s.target.id, ctx=ast.Load()))
                st.env[s.target.id] = ast.BinOp(left=copy.deepcopy(cur), op=s.op, right=v)
            else:
                self.bind(s.target, v, st)
            return [st]
        if isinstance(s, ast.Expr):
            v = self.sub(s.value, st)
            st.events.append((s, v))
            c = s.value
            if isinstance(c, ast.Call) and isinstance(c.func, ast.Attribute) and isinstance(c.func.value, ast.Name) and c.func.value.id in self.locals and isinstance(v, ast.Call):
                n, a = c.func.value.id, c.func.attr
                if a in ("append", "extend") or a in _MUTATORS:
                    st.env[n] = ast.Call(func=ast.Name(id="$" + (a if a in ("append", "extend") else "mut"), ctx=ast.Load()), args=[v.func.value] + list(v.args), keywords=[])
            return [st]
        if isinstance(s, ast.If):
            out = []
            for c, o in self.split(self.sub(s.test, st)):
                s2 = st.fork()
                if s2.add(c):
                    out.extend(self.block(s.body if o else s.orelse, [s2]))
            return out
        if isinstance(s, ast.Return):
            if s.value is None:
                st.end = ("return", None, s)
                return [st]
            out = []
            for s2, v in self.values(self.sub(s.value, st), st):
                s2.events.append((s, v))
                s2.end = ("return", v, s)
                out.append(s2)
            return out
        if isinstance(s, ast.Raise):
            st.end = ("raise", self.sub(s.exc, st) if s.exc is not None else None, s)
            return [st]
        if isinstance(s, ast.Break):
            st.end = ("break", None, s)
            return [st]
        if isinstance(s, ast.Continue):
            st.end = ("continue", None, s)
            return [st]
        if isinstance(s, (ast.Pass, ast.Import, ast.ImportFrom, ast.Global, ast.Nonlocal, ast.Delete)):
            return [st]
        if isinstance(s, ast.Assert):
            out = []
            for c, o in self.split(self.sub(s.test, st)):
                s2 = st.fork()
                if s2.add(c):
                    if not o:
                        s2.end = ("raise", None, s)
                    out.append(s2)
            return out
        if isinstance(s, (ast.FunctionDef, ast.AsyncFunctionDef, ast.ClassDef)):
            st.env[s.name] = ast.Name(id=f"{s.name}@def", ctx=ast.Load())
            return [st]
        if isinstance(s, (ast.While, ast.For)):
            return self.loop(s, st)
        if isinstance(s, ast.Try):
            return self.try_(s, st)
        if isinstance(s, ast.With):
            for it in s.items:
                st.events.append((s, self.sub(it.context_expr, st)))
                if it.optional_vars is not None:
                    for n in _target_names(it.optional_vars):
                        st.env[n] = ast.Name(id=f"{n}@{next(self.syms)}", ctx=ast.Load())
            return self.block(s.body, [st])
        raise _Unsupported(type(s).__name__)

    def loop(self, s, st):
        k = next(self.syms)
        lp = _Loop(s, k)
        self.loops[k] = lp
        names = _assigned(s.body) | (set(_target_names(s.target)) if isinstance(s, ast.For) else set())
        lp.pre = {n: st.env.get(n) for n in names}
        if isinstance(s, ast.For):
            lp.iter = self.sub(s.iter, st)
            st.events.append((s, lp.iter))
        head = st.fork()
        for n in names:
            lp.head[n] = f"{n}@{k}"
            head.env[n] = ast.Name(id=lp.head[n], ctx=ast.Load())
        out = []
        after = []
        if isinstance(s, ast.While):
            alts = self.split(self.sub(s.test, head))
        else:
            alts = [([], True), ([], False)]
        lp.nconds = len(head.conds)
        for c, o in alts:
            s2 = head.fork()
            if not s2.add(c):
                continue
            if not o:
                if not isinstance(s, ast.While):
                    after.extend(self.block(s.orelse, [s2]))
                continue
            for b in self.block(s.body, [s2]):
                if b.end is None or b.end[0] == "continue":
                    b.end = None
                    lp.iters.append(b)
                elif b.end[0] == "break":
                    b.end = None
                    lp.exits += 1
                    after.append(b)
                else:
                    lp.exits += 1
                    out.append(b)
        if isinstance(s, ast.While):
            # leaving by the loop test: either no iteration ran (the test is false on the values before the loop) or the
            # test is false on the values at the end of a last iteration, which started from an arbitrary loop head (its
            # symbols are renamed: they denote the head of that last iteration, not the exit)
            ends = [st.fork()] + [self.previous(b, lp) for b in lp.iters]
            for e in ends:
                for c, o in self.split(self.sub(s.test, e)):
                    if o:
                        continue
                    s2 = e.fork()
                    if s2.add(c):
                        after.extend(self.block(s.orelse, [s2]))
        return out + after

    @staticmethod
    def previous(b, lp):
        """A copy of the iteration-end state `b` of loop `lp` in which the loop-head symbols are renamed `<name>@<k>p`."""
        ren = {v: v + "p" for v in lp.head.values()}

        def r(e):
            if e is None or not any(isinstance(n, ast.Name) and n.id in ren for n in ast.walk(e)):
                return e
            e = copy.deepcopy(e)
            for n in ast.walk(e):
                if isinstance(n, ast.Name) and n.id in ren:
                    n.id = ren[n.id]
            return e

        return _St({k: r(v) for k, v in b.env.items()}, [(r(a), pol) for a, pol in b.conds], [(x, r(v)) for x, v in b.events], list(b.visited))

    def try_(self, s, st):
        names = _assigned(s.body)
        out = []
        for b in self.block(s.body, [st.fork()]):
            if b.end is None:
                out.extend(self.block(s.orelse, [b]))
            else:
                out.append(b)
        for h in s.handlers:
            hs = st.fork()
            hs.visited.extend(x for b in s.body for x in ast.walk(b) if isinstance(x, ast.stmt))
            k = next(self.syms)
            for n in names:
                hs.env[n] = ast.Name(id=f"{n}@{k}", ctx=ast.Load())
            if h.name:
                hs.env[h.name] = ast.Name(id=f"{h.name}@{k}", ctx=ast.Load())
            hs.conds.append((ast.Name(id=f"$except@{k}", ctx=ast.Load()), True))
            out.extend(self.block(h.body, [hs]))
        res = []
        for b in out:
            if b.end is None and s.finalbody:
                res.extend(self.block(s.finalbody, [b]))
            else:
                res.append(b)
        return res

    def run(self):
        st = _St(dict(self.preset))
        states = self.block(self.fn.body, [st])
        for b in states:
            if b.end is None:
                b.end = ("fall", None, None)
        return states


def _paths(fn, preset=None, resolver=None):
    ex = _Exec(fn, preset, resolver)
    return ex, ex.run()


def _home_of(f, e):
    """Module in whose namespace the (dotted) name `e` of a path term is to be resolved: the analysed function's module,
    or the module of the inlined helper the name stems from (`_home` tag set by the path executor)."""
    while isinstance(e, ast.Attribute):
        e = e.value
    return getattr(e, "_home", None) or f.module.name


def _lookup(ctx, f, e):
    """Symbol a (dotted) name of a path term of `f` resolves to, or None."""
    d = dotted(e)
    return ctx.rs.lookup_dotted(_home_of(f, e), d) if d else None


def _helper_resolver(ctx, f, keep):
    """Resolver for `_Exec.inline_test` / `inline_operand`: calls of repository functions/methods (resolved from f's
    module - a name that stems from an inlined helper of another module: from that module; `self.m(..)` through f's
    class) other than the ones in `keep`, which the rules want to see as atoms.  -> (function node, skip-self, name of the callee's
    module)."""

    def resolve(call):
        d = dotted(call.func)
        if d is None:
            return None
        skip = False
        sym = None
        if d.startswith("self.") and f.cls and d.count(".") == 1:
            sym = ctx.rs.lookup_dotted(f.module.name, f"{f.cls}.{d[5:]}")
            skip = True
        elif d.split(".")[0] not in ("self", "cls"):
            sym = ctx.rs.lookup_dotted(_home_of(f, call.func), d)
        if sym is None or sym.kind != "func" or sym.fq in keep or any(sym.fq.startswith(k + ".") for k in keep):
            return None
        m = ctx.repo.modules.get(sym.module)
        g = m.funcs.get(sym.name) if m else None
        if g is None or g.node is f.node or not isinstance(g.node, ast.FunctionDef):
            return None
        if any(isinstance(x, ast.Name) and x.id in ("staticmethod", "classmethod", "property") for x in g.node.decorator_list):
            return None
        if skip is False and g.cls:
            return None
        if sum(1 for _ in ast.walk(g.node)) > 400:
            return None
        return g.node, skip, sym.module

    return resolve


# ===================================================================================================== shared helpers
_VIEWS = ("bytes", "bytearray", "memoryview", "list", "tuple")


def _strip_view(e):
    """bytes(x) / bytearray(x) / memoryview(x) / list(x) / tuple(x): the same sequence of byte values as x."""
    while isinstance(e, ast.Call) and dotted(e.func) in _VIEWS and len(e.args) == 1 and not e.keywords:
        e = e.args[0]
    return e


def _unview(e, names):
    """A copy of the term in which value-preserving views of the named parameters (bytes(p), bytearray(p), ..) are
    replaced by the parameter itself."""

    class V(ast.NodeTransformer):
        def visit_Call(self, n):
            self.generic_visit(n)
            if dotted(n.func) in _VIEWS and len(n.args) == 1 and not n.keywords and isinstance(n.args[0], ast.Name) and n.args[0].id in names:
                return n.args[0]
            return n

    return V().visit(copy.deepcopy(e))


def _is_param(e, p):
    return isinstance(e, ast.Name) and e.id == p


def _mentions(e, p):
    return e is not None and any(isinstance(n, ast.Name) and n.id == p for n in ast.walk(e))


def _callargs(call, names, skip=0):
    """Positional/keyword arguments of a call bound to the parameter names of a (builtin) signature; None on surplus."""
    out = {}
    args = list(call.args)[skip:]
    if len(args) > len(names) or any(isinstance(a, ast.Starred) for a in args):
        return None
    for n, a in zip(names, args):
        out[n] = a
    for kw in call.keywords:
        if kw.arg is None or kw.arg not in names or kw.arg in out:
            return None
        out[kw.arg] = kw.value
    return out


def _to_bytes(e):
    """`int.to_bytes(v, length, byteorder, signed=..)` / `v.to_bytes(length, byteorder, signed=..)` -> dict or None."""
    if not (isinstance(e, ast.Call) and isinstance(e.func, ast.Attribute) and e.func.attr == "to_bytes"):
        return None
    if dotted(e.func.value) == "int":
        if not e.args:
            return None
        b = _callargs(e, ["length", "byteorder", "signed"], skip=1)
        v = e.args[0]
    else:
        b = _callargs(e, ["length", "byteorder", "signed"])
        v = e.func.value
    if b is None:
        return None
    return {"value": v, "length": b.get("length", ast.Constant(value=1)), "byteorder": b.get("byteorder", ast.Constant(value="big")), "signed": b.get("signed", ast.Constant(value=False))}


def _from_bytes(e):
    if not (isinstance(e, ast.Call) and dotted(e.func) == "int.from_bytes" and e.args):
        return None
    b = _callargs(e, ["bytes", "byteorder", "signed"])
    if b is None or "bytes" not in b:
        return None
    return {"bytes": b["bytes"], "byteorder": b.get("byteorder", ast.Constant(value="big")), "signed": b.get("signed", ast.Constant(value=False))}


_HARMLESS = {"len", "startswith", "endswith", "decode", "encode", "lower", "upper", "strip", "lstrip", "rstrip", "isalnum", "isascii", "isalpha", "isdigit",
             "find", "rfind", "index", "count", "bool", "str", "bytes", "int", "ord", "isinstance", "get", "split", "partition", "rpartition"}


def _could_classify(a):
    """Can the condition possibly embody a stager classification of its argument?  Only when it calls something other
    than builtin string predicates/accessors (whose result cannot depend on a checksum)."""
    for n in ast.walk(a):
        if isinstance(n, ast.Call):
            last = n.func.attr if isinstance(n.func, ast.Attribute) else dotted(n.func)
            if last not in _HARMLESS:
                return True
    return False


def _show(e, n=80):
    """Text of a path term for messages, without the executor's symbol suffixes."""
    return re.sub(r"@\d+p?", "", src(e))[:n]


def _cond_text(conds):
    return [("" if pol else "not ") + src(a) for a, pol in conds]



# ===================================================================================================== run
def run(ctx):
    rep = ctx.rep
    rep.explanation = (
        "Static analysis of utils.py and pcap.find_staged_beacon on symbolic path terms (locals substituted by their definitions over "
        "the parameters, tests split at and/or/not, loop bodies walked once; nothing is evaluated on data): xor() returns its input on "
        "the paths an empty key takes and on no path a key with a non-zero byte can take (abstract key domain empty / all-zero / "
        "non-zero with interval transfer for len, sum, any, modular and partial tests), otherwise int.to_bytes(from_bytes(data) ^ "
        "from_bytes(keystream), len(data), ..) with one unsigned byte order, the length argument equal to len(data) in polynomial "
        "normal form and a keystream that is the key repeated from its first byte and cut to len(data) (length algebra of slices and "
        "repetitions, tiling lemmas k*(n//k+1) > n, k*ceil(n/k) >= n); where xor() assembles its result from pieces over slices of "
        "the data, a piece that reads only its slice and the key (information flow on the piece term) requires every slice start - a "
        "polynomial over the block index - to be a multiple of len(key), a piece that reads the position must rotate the key by the "
        "start modulo len(key), consecutive slices must tile the data, and a piece helper gets the obligations of xor's own result; "
        "the pack/unpack partials are compared completely with the "
        "widths/byte orders their names promise and pack/unpack pass byteorder/signed through, pack sizing with ceil(bit_length/8) "
        "exactly in the case size is None; every returning path of unpack reads `signed` and `byteorder` (pack: `byteorder`) in its "
        "term or its conditions unless the path conditions confine it to an empty chunk (byte order: one byte); checksum8 returns 0 on exactly the text lengths [0, 3] and the code point sum without '/' "
        "modulo 256 on [4, inf) (interval sets from the path conditions) - a sum over the bytes of an encoding of the text (str.encode / bytes(s, enc) with a constant codec of the table UTF-8/16/32, ASCII, Latin-1) is located and is a violation, the code units being the code points for ASCII text only (L31); the classifiers' true-alternatives cover exactly checksum "
        "value 92 / 93 (interval sets over [0, 255]) and for x64 the parsed regular expression is '/' + exactly four characters of the "
        "class [0-9A-Za-z] anchored at both ends (syntax tree, flags), and the x64 shape test constrains the whole URI - re.fullmatch, or a "
        "pattern ending in `\\Z` under re.match / with a start anchor under re.search; `$`, which also matches before a final newline, a "
        "missing anchor or re.MULTILINE line anchors are violations for backtracking-only patterns (first / last item of the parse tree); a generated stager URI is returned only on the true edge of its "
        "own classifier applied to that very value, for admitted lengths within [3, inf) (x64: {4}), built as '/' + `length` draws from "
        "an alphabet inside [0-9A-Za-z]; the staged beacon extraction is reachable with a known request only on paths with a positive "
        "stager test of the request URI - or, for a gate spelled without the classifier calls (value helper substituted per returning path, lookup in a constant table by case analysis over its keys, membership / comparison tests), "
        "on paths whose conditions confine checksum8(request uri) to 92, or to {92, 93} together with the x64 shape test (interval sets over [0, 255]; a checksum-only gate that admits 93 is a violation, L30) - and every returning path a known request takes without such a test returns None - in particular not "
        "object / module state in which the function or its caller stores extraction results (def-use on the path terms; violated when "
        "neither the path conditions nor the returned term read the request URI); the NetBIOS encoder emits (high nibble + offset, low nibble + offset) per byte (structural "
        "nibble forms; a repository generator function that feeds the sequence builder is resolved and its one for-loop walked once, the yielded items taking the place of the consumer's loop variable) and the decoder term over the pair positions (2j, 2j+1) is 16*(x - offset) + (y - offset) in normal form; "
        "every path of pack() that raises by itself admits only values outside the range representable at the width (region of "
        "the value as intervals with bounds a*2**(8*size) + b per case of signed / size None, disjoint from [-W/2, W/2 - 1] resp. "
        "[0, W - 1] at every width)."
    )
    rep.not_decided = [
        "self-inverse / inverse laws as such (only the structural conditions that imply them, via the lemmas in the module docstring)",
        "odd-length NetBIOS input", "exceptions raised inside int.to_bytes / int.from_bytes themselves and range checks of pack() spelled with bit_length() or other forms than comparisons with a*2**(8*size) + b (undecided)", "minimal-width signed packing (size None, signed=True)",
        "whole-URI coverage of x64 patterns with look-around, conditionals, back references, atomic / possessive constructs, scoped flags or inner anchors, and of pattern objects that are not module-level re.compile constants (undecided)",
        "a staged-beacon gate whose conditions on the request are neither classifier calls nor comparisons / memberships / one constant-table lookup of checksum8(request uri) and recognised shape tests of the URI (undecided)",
        "extraction results kept in state the rule cannot see being written (other classes / modules, containers reached through calls), or returned on an ungated path whose conditions read the request URI (undecided)",
        "spellings outside the recognised algebraic forms (reported as undecided)",
        "a checksum8 that sums encoded bytes with a codec outside the table / a non-constant codec, of a text transformed otherwise than by removing characters, or on a path restricted by a non-length test of the text such as isascii() (undecided)",
        "NetBIOS sequence builders fed by a repository generator that is not one for-loop yielding on a single body path (undecided)",
        "block-wise xor with while-loops, stateful key iterators shared between pieces, strides the algebra cannot relate to len(key), or under path conditions that bound the key length (undecided); a piece helper is assumed to be a function of its arguments (plain module-level function without global / nonlocal)",
        "WHAT a path of unpack/pack computes from `signed` / `byteorder` when it is not the int.from_bytes / to_bytes call (only that it reads them); pack's dependence on `signed` (the bytes of a representable value do not depend on it, only the range check does: R7)",
    ]
    rep.trusted_base = [
        "CPython ast", "int.from_bytes / to_bytes semantics", "CPython re._parser (parse tree of the x64 URI pattern; nothing is matched)",
        "constant folder for constant expressions (string module constants, re flags)", "csverif.absint (SymPoly normal form, Itv)",
        "lemmas L1-L31 of the rules/c20.py docstring (length algebra, floor/ceiling division, known-bits facts for a byte, regex anchor/class semantics incl. `$` before a final newline, powers of 256 and the two's complement range, signed / byte-order dependence of from_bytes, key phase of a repeating-key XOR, results independent of the request URI, checksum8 blind to an appended '/', code units of UTF-8/16/32, ASCII, Latin-1 vs code points)", "codecs.lookup (canonical name of a constant codec name; nothing is encoded)",
    ]
    from csverif import AnalysisError

    for rule, fn, anchor in (("R1", r1, "utils.py::xor"), ("R2", r2, "utils.py::pack/unpack"), ("R3", r3, "utils.py::checksum8"), ("R4", r4, "utils.py::random_stager_uri"),
                             ("R5", r5, "pcap.py::BeaconCapture.find_staged_beacon"), ("R6", r6, "utils.py::netbios"), ("R7", r7, "utils.py::pack")):
        try:
            fn(ctx)
        except AnalysisError:
            raise
        except Exception as e:  # a shape the rule did not anticipate: nothing is claimed about it
            ctx.undecided(rule, "ABS", anchor, "rule evaluation", f"the code has a shape the rule does not model ({type(e).__name__}: {str(e)[:120]})")
            rep.notes.append(f"{rule}: not evaluated ({type(e).__name__}: {str(e)[:200]})")


def _try_paths(ctx, rule, kind, f, text, preset=None, resolver=None):
    try:
        return _paths(f.node, preset, resolver)
    except _Unsupported as e:
        ctx.undecided(rule, kind, f, text, f"the function body uses a construct the path executor does not model ({e})")
        return None, None
    except RecursionError:
        ctx.undecided(rule, kind, f, text, "the function body is too deeply nested for the path executor")
        return None, None


# ===================================================================================================== R1 xor
def _key_iv(name, cls, data_nonempty, data, key):
    """Interval of an integer atom of a test under the abstract key class (E empty, Z non-empty all-zero, N has a non-zero
    byte) and the data assumption -> (Itv, reads-key-content) | None (atom not modelled) | "R" (reading it raises)."""
    klen = Itv.const(0) if cls == "E" else Itv(1, None)
    dlen = Itv(1, None) if data_nonempty else Itv(0, None)
    d = _DIVS.get(name)
    if d is not None:
        kind, n, k = d
        m = _int_const(k)
        keys = list(n.terms)
        if kind == "md" and m is not None and m >= 2 and len(keys) == 1 and len(keys[0]) == 1 and n.terms[keys[0]] == 1:
            v = _key_iv(keys[0][0], cls, data_nonempty, data, key)
            if v is None or v == "R":
                return v
            if v[0].lo == v[0].hi == 0:
                return Itv.const(0), v[1]
            if v[0].lo is not None and v[0].lo >= 0 and v[0].hi is None:
                return Itv(0, m - 1), True  # L8: every residue occurs
        return None
    n = _atom_node(name)
    if n is None:
        return None
    if isinstance(n, ast.Name):  # truthiness of the sequence itself
        return (klen, False) if n.id == key else (dlen, False) if n.id == data else None
    if not isinstance(n, (ast.Call, ast.Subscript)):
        return None

    def part(x):
        """x is key[<slice with constant bounds>] -> True, key -> False, else None"""
        if _is_param(x, key):
            return False
        if isinstance(x, ast.Subscript) and _is_param(x.value, key) and isinstance(x.slice, ast.Slice) and all(b is None or isinstance(_c(b), int) for b in (x.slice.lower, x.slice.upper, x.slice.step)):
            return True
        return None

    if isinstance(n, ast.Subscript):  # key[c]: one byte of the key
        if _is_param(n.value, key) and isinstance(_c(n.slice), int):
            if cls == "E":
                return "R"
            if cls == "Z":
                return (Itv.const(0), True) if _c(n.slice) in (0, -1) else None
            return Itv(0, 255), True  # L8
        return None
    fn = dotted(n.func)
    if len(n.args) != 1 or n.keywords:
        return None
    a = n.args[0]
    if fn == "len":
        return (klen, False) if _is_param(a, key) else (dlen, False) if _is_param(a, data) else None
    if fn in ("sum", "any"):
        p = part(a)
        if p is None:
            return None
        if cls in ("E", "Z"):
            return Itv.const(0), True  # L7
        if p:
            return (Itv(0, None) if fn == "sum" else Itv(0, 1)), True  # L8
        return (Itv(1, None) if fn == "sum" else Itv.const(1)), True  # L7
    return None


def _div_by_len(e, key):
    """Does the term divide (//, %, divmod) by len(key)?"""
    want = f"len({key})"
    for n in ast.walk(_unview(e, {key})):
        if isinstance(n, ast.BinOp) and isinstance(n.op, (ast.FloorDiv, ast.Mod, ast.Div)) and src(n.right) == want:
            return True
        if isinstance(n, ast.Call) and dotted(n.func) == "divmod" and len(n.args) == 2 and src(n.args[1]) == want:
            return True
    return False


def _other_raisers(states, key):
    """Divisions whose divisor is neither a constant nor len(key): exception sources the key domain does not model."""
    want = f"len({key})"
    for s in states:
        for _st, v in s.events:
            for n in ast.walk(_unview(v, {key})):
                d = n.right if isinstance(n, ast.BinOp) and isinstance(n.op, (ast.FloorDiv, ast.Mod, ast.Div)) and not isinstance(n.left, ast.Constant) else \
                    n.args[1] if isinstance(n, ast.Call) and dotted(n.func) == "divmod" and len(n.args) == 2 else None
                if d is not None and _c(d) is None and src(d) != want:
                    return src(n)[:60]
    return None


def _xor_elementwise(v, data, key):
    """bytes(a ^ b for a, b in zip(data, cycle(key))) and the two index forms -> True (periodic key, length of data),
    False (located but wrong), None (not this shape)."""
    inner = v
    if isinstance(v, ast.Call) and dotted(v.func) in ("bytes", "bytearray") and len(v.args) == 1 and not v.keywords:
        inner = v.args[0]
    if not (isinstance(inner, (ast.GeneratorExp, ast.ListComp)) and len(inner.generators) == 1 and not inner.generators[0].ifs):
        return None
    g = inner.generators[0]
    elt = inner.elt
    if not (isinstance(elt, ast.BinOp) and isinstance(elt.op, ast.BitXor)):
        return None
    it = g.iter
    tn = _target_names(g.target)
    sides = [elt.left, elt.right]
    if isinstance(it, ast.Call) and dotted(it.func) == "zip" and len(it.args) == 2 and len(tn) == 2 and isinstance(g.target, (ast.Tuple, ast.List)):
        roles = {}
        for name, a in zip(tn, it.args):
            if _is_param(_strip_view(a), data):
                roles[name] = "data"
            elif isinstance(a, ast.Call) and dotted(a.func) in ("cycle", "itertools.cycle") and len(a.args) == 1 and _is_param(_strip_view(a.args[0]), key):
                roles[name] = "key"
        got = sorted(roles.get(dotted(s), "?") for s in sides)
        if "?" in got:
            return None
        return got == ["data", "key"]
    # index forms: the index runs over range(len(data)) / enumerate(data)
    idx = None
    dexp = None
    if isinstance(it, ast.Call) and dotted(it.func) == "range" and len(it.args) == 1 and len(tn) == 1 and src(it.args[0]) == f"len({data})":
        idx = tn[0]
    elif isinstance(it, ast.Call) and dotted(it.func) == "enumerate" and len(it.args) == 1 and len(tn) == 2 and _is_param(_strip_view(it.args[0]), data):
        idx, dexp = tn[0], tn[1]
    if idx is None:
        return None
    d_side = [s for s in sides if (dexp is not None and dotted(s) == dexp) or (isinstance(s, ast.Subscript) and _is_param(s.value, data) and dotted(s.slice) == idx)]
    k_side = [s for s in sides if isinstance(s, ast.Subscript) and _is_param(s.value, key) and not isinstance(s.slice, ast.Slice)]
    if len(d_side) != 1 or len(k_side) != 1 or d_side[0] is k_side[0]:
        return None
    # the key index in normal form: md(i, len(key)) is the periodic reading; the bare index i is not periodic (it runs
    # past a key shorter than the data)
    p = _P(k_side[0].slice)
    i, n = SymPoly.atom(idx), SymPoly.atom(f"len({key})")
    if p is None:
        return None
    if p == _div_atom("md", i, n):
        return True
    if p == i or p == _div_atom("md", i, SymPoly.atom(f"len({data})")):  # L24: i % len(data) == i for the indices 0 <= i < len(data)
        return False
    return None


def _is_handler_path(st):
    return any(isinstance(a, ast.Name) and a.id.startswith("$except@") for a, _p in st.conds)


def _keystream(K, F, data, key):
    """Is the key operand `K` of the XOR the key repeated from its first byte and cut to exactly len(data) bytes, under
    the path facts F?  -> (True | False | None, explanation)."""
    n, kl = SymPoly.atom(f"len({data})"), SymPoly.atom(f"len({key})")
    vocab_ok = lambda p: all(a in (f"len({data})", f"len({key})") or a in _DIVS for a in p.atoms())  # noqa: E731
    K = _strip_view(K)
    X, cut = K, None
    if isinstance(K, ast.Subscript) and isinstance(K.slice, ast.Slice):
        sl = K.slice
        if sl.step is not None and _c(sl.step) != 1:
            return (False, f"the key is read with stride {_c(sl.step)}") if isinstance(_c(sl.step), int) else (None, f"slice step `{src(sl.step)}`")
        if sl.lower is not None and _c(sl.lower) != 0:
            return (False, f"the keystream starts at key byte {_c(sl.lower)}, not at the first byte") if isinstance(_c(sl.lower), int) else (None, f"slice start `{src(sl.lower)}`")
        X = _strip_view(K.value)
        if sl.upper is not None:
            cut = _P(sl.upper, F.len_poly)
            if cut is None:
                return None, f"cut position `{src(sl.upper)[:60]}` is not arithmetic"
            if cut != n:
                return (False, f"the keystream is cut to {cut!r} bytes, not len({data})") if vocab_ok(cut) else (None, f"cut position {cut!r}")
    # X: the material that is cut
    if _is_param(X, key):
        lx, what = kl, "the bare key"
    elif isinstance(X, ast.BinOp) and isinstance(X.op, ast.Mult) and (_is_param(_strip_view(X.left), key) or _is_param(_strip_view(X.right), key)):
        q = _P(X.right if _is_param(_strip_view(X.left), key) else X.left, F.len_poly)
        if q is None:
            return None, f"repetition factor in `{src(X)[:60]}` is not arithmetic"
        lx, what = kl * q, f"the key repeated {q!r} times"
    else:
        return None, f"keystream material `{src(X)[:80]}` is not the key or a repetition of the key"
    if cut is None:
        # not cut: its length itself must be len(data)
        if lx == n or (F.ge0(lx - n) is True and F.ge0(n - lx) is True):
            return True, f"{what} has exactly len({data}) bytes on this path"
        if F.unknown or not vocab_ok(lx):
            return None, f"{what} is not cut and its length {lx!r} is not comparable with len({data})"
        return False, f"{what} is not cut to size: it has {lx!r} bytes, required len({data})"
    if F.ge0(lx - n) is True:
        return True, f"{what} has at least len({data}) bytes on this path (L2/L3 or the path condition) and is cut to len({data})"
    if F.unknown or not vocab_ok(lx):
        return None, f"cannot relate the length {lx!r} of {what} to len({data})"
    if F.ge0(n - lx) is True and lx == kl:
        return False, f"{what} is not repeated on a path that admits len({key}) < len({data}): the keystream is shorter than the data there"
    if F.ge0(n - lx) is True:
        return False, f"{what} has at most len({data}) bytes ({lx!r}; strictly fewer e.g. when len({key}) does not divide len({data}), L9), so the keystream is shorter than the data"
    if not F.mentions(f"len({key})") and lx == kl:
        return False, f"{what} is cut to len({data}) without being repeated: shorter than the data for every key shorter than the data"
    return None, f"cannot relate the length {lx!r} of {what} to len({data})"


# ---- block-wise xor: the result is a concatenation of pieces, each computed from one slice of the data
_PURE_CALLS = {"len", "bytes", "bytearray", "memoryview", "int", "min", "max", "abs", "divmod", "int.from_bytes", "int.to_bytes"}
BLOCKS = "block-wise xor continues the key phase"


def _pure_term(e, allowed):
    """Is the term built only from the allowed names, constants, operators, indexing / slicing and calls of builtins whose
    result is a function of the argument *values* (no iterators or generators that carry a position, no other callee)?"""
    if e is None or isinstance(e, ast.Constant):
        return True
    if isinstance(e, ast.Name):
        return e.id in allowed
    if isinstance(e, ast.BinOp):
        return _pure_term(e.left, allowed) and _pure_term(e.right, allowed)
    if isinstance(e, ast.UnaryOp):
        return _pure_term(e.operand, allowed)
    if isinstance(e, ast.BoolOp):
        return all(_pure_term(x, allowed) for x in e.values)
    if isinstance(e, ast.Compare):
        return _pure_term(e.left, allowed) and all(_pure_term(x, allowed) for x in e.comparators)
    if isinstance(e, ast.IfExp):
        return all(_pure_term(x, allowed) for x in (e.test, e.body, e.orelse))
    if isinstance(e, (ast.Tuple, ast.List)):
        return all(not isinstance(x, ast.Starred) and _pure_term(x, allowed) for x in e.elts)
    if isinstance(e, ast.Subscript):
        sl = e.slice
        parts = (sl.lower, sl.upper, sl.step) if isinstance(sl, ast.Slice) else (sl,)
        return _pure_term(e.value, allowed) and all(_pure_term(x, allowed) for x in parts)
    if isinstance(e, ast.Call):
        if any(isinstance(x, ast.Starred) for x in e.args) or any(k.arg is None for k in e.keywords):
            return False
        args = list(e.args) + [k.value for k in e.keywords]
        if dotted(e.func) in _PURE_CALLS:
            return all(_pure_term(x, allowed) for x in args)
        if isinstance(e.func, ast.Attribute) and e.func.attr == "to_bytes":
            return _pure_term(e.func.value, allowed) and all(_pure_term(x, allowed) for x in args)
    return False


def _folds_to_empty(e, types):
    try:
        v = _fold(e) if e is not None else None
    except _NoEval:
        return False
    return isinstance(v, types) and len(v) == 0


def _appended(t, head, listacc):
    """What one iteration adds to the accumulator whose loop-head symbol is `head`: `acc@k + P`, `$extend(acc@k, P)` for a
    bytes / bytearray accumulator, `$append(acc@k, P)`, `acc@k + [P, ..]`, `$extend(acc@k, [P, ..])` for a list of pieces
    that is joined afterwards -> [P, ..]; None when the accumulator is changed in another way."""
    if isinstance(t, ast.Name):
        return [] if t.id == head else None
    base = item = None
    if isinstance(t, ast.Call) and dotted(t.func) in ("$extend", "$append") and len(t.args) == 2 and not t.keywords:
        base, item = t.args
        if dotted(t.func) == "$append":
            if not listacc:
                return None
            item = ast.List(elts=[item], ctx=ast.Load())
    elif isinstance(t, ast.BinOp) and isinstance(t.op, ast.Add):
        base, item = t.left, t.right
    if base is None:
        return None
    b = _appended(base, head, listacc)
    if b is None:
        return None
    if not listacc:
        return b + [item]
    if not isinstance(item, (ast.List, ast.Tuple)) or any(isinstance(x, ast.Starred) for x in item.elts):
        return None
    return b + list(item.elts)


def _loop_pieces(ex, sym, listacc):
    nm, _, k = sym.partition("@")
    lp = ex.loops.get(int(k)) if k.isdigit() else None
    if lp is None or not isinstance(lp.stmt, ast.For) or lp.exits or lp.stmt.orelse or not lp.iters or not isinstance(lp.stmt.target, ast.Name):
        return None
    if not _folds_to_empty(lp.pre.get(nm), list if listacc else (bytes, bytearray)):
        return None
    var = lp.head[lp.stmt.target.id]
    out = []
    for b in lp.iters:
        items = _appended(b.env.get(nm), sym, listacc)
        if items is None:
            return None
        out.extend((lp.iter, var, e, list(b.conds[lp.nconds:])) for e in items)
    return out


def _concat_pieces(ex, v):
    """A byte string assembled from pieces -> [(iterable | None, loop variable | None, piece term, conditions of the
    iteration)]: `b"".join(P(o) for o in IT)`, `b"".join([P1, P2])`, `P1 + P2 + ..`, a bytes / bytearray accumulator grown by
    one for-loop, a list of pieces filled by one for-loop and joined.  None: another shape."""
    v = _strip_view(v)
    if isinstance(v, ast.Call) and isinstance(v.func, ast.Attribute) and v.func.attr == "join" and len(v.args) == 1 and not v.keywords and _folds_to_empty(v.func.value, (bytes, bytearray)):
        x = _strip_view(v.args[0])
        if isinstance(x, (ast.GeneratorExp, ast.ListComp)):
            g = x.generators[0]
            if len(x.generators) != 1 or g.ifs or g.is_async or not isinstance(g.target, ast.Name):
                return None
            return [(g.iter, g.target.id, x.elt, [])]
        if isinstance(x, (ast.List, ast.Tuple)) and x.elts and not any(isinstance(e, ast.Starred) for e in x.elts):
            return [(None, None, e, []) for e in x.elts]
        if isinstance(x, ast.Name) and "@" in x.id:
            return _loop_pieces(ex, x.id, True)
        return None
    if isinstance(v, ast.Name) and "@" in v.id:
        return _loop_pieces(ex, v.id, False)
    if isinstance(v, ast.BinOp) and isinstance(v.op, ast.Add):
        parts = []

        def flat(e):
            if isinstance(e, ast.BinOp) and isinstance(e.op, ast.Add):
                flat(e.left)
                flat(e.right)
            else:
                parts.append(e)

        flat(v)
        return [(None, None, e, []) for e in parts]
    return None


def _poly_subst(p, atom, q):
    out = SymPoly()
    for mon, c in p.terms.items():
        t = SymPoly({tuple(x for x in mon if x != atom): c})
        for _ in range(mon.count(atom)):
            t = t * q
        out = out + t
    return out


def _expand_mod(p, k):
    """n % k == n - k * (n // k) (L2) for every modulo atom of `p` whose divisor is the polynomial k."""
    for _ in range(8):
        hit = [a for a in p.atoms() if a in _DIVS and _DIVS[a][0] == "md" and _DIVS[a][2] == k]
        if not hit:
            break
        _kind, n, _k2 = _DIVS[hit[0]]
        p = _poly_subst(p, hit[0], n - k * _div_atom("fd", n, k))
    return p


def _range_start_step(it):
    if not (isinstance(it, ast.Call) and dotted(it.func) == "range" and not it.keywords and 1 <= len(it.args) <= 3 and not any(isinstance(a, ast.Starred) for a in it.args)):
        return None
    if len(it.args) == 1:
        return ast.Constant(value=0), ast.Constant(value=1)
    return it.args[0], (it.args[2] if len(it.args) == 3 else ast.Constant(value=1))


def _key_rotation(a, key):
    """`key[r:] + key[:r]` inside term `a` -> (node, r) or None."""
    for n in ast.walk(a):
        if isinstance(n, ast.BinOp) and isinstance(n.op, ast.Add) and all(isinstance(x, ast.Subscript) and isinstance(x.slice, ast.Slice) and _is_param(_strip_view(x.value), key) for x in (n.left, n.right)):
            l, r = n.left.slice, n.right.slice
            if l.lower is not None and l.upper is None and l.step is None and r.lower is None and r.upper is not None and r.step is None and src(l.lower) == src(r.upper):
                return n, l.lower
    return None


def _admits_long_keys(conds, data, key):
    """Do the path conditions hold for keys of every sufficiently large length with arbitrary content (some byte non-zero)
    together with data that is long enough?  Each condition on the key / data must either hold for every key of the class
    N of the abstract key domain (interval transfer of `_key_iv`), or be a linear bound c_k*len(key) + c_d*len(data) + c >= 0
    that large lengths satisfy (c_k, c_d >= 0, or c_k < 0 < c_d: the data can be chosen longer); no upper bound on
    len(data).  False: not shown (nothing is claimed)."""
    seqs = {data, key}
    kl, n = (f"len({key})",), (f"len({data})",)
    for a, pol in conds:
        a = _unview(a, seqs)
        if not (_mentions(a, key) or _mentions(a, data)):
            continue
        r = _lin_test(a, lambda name: _key_iv(name, "N", True, data, key))
        if r not in (None, "R") and r[0] in ("T", "F") and (r[0] == "T") == pol:
            continue
        F1 = _Facts(seqs)
        F1.add_cond(a, pol)
        if F1.unknown or not F1.ge:
            return False
        for fct in F1.ge:
            if not all(mon in ((), kl, n) for mon in fct.terms):
                return False
            ck, cd = fct.terms.get(kl, 0), fct.terms.get(n, 0)
            if not ((ck >= 0 and cd >= 0) or (ck < 0 < cd)):
                return False
    return True


def _xor_blockwise(ctx, f, ex, s, data, key):
    """The computed result of path `s` is a concatenation of pieces, each computed from one slice data[lo:hi] of the data.
    Necessary condition (L27): XOR with the *repeating* key needs key byte (lo + i) % len(key) at position i of a piece.
    A piece is read as a term over its slice (abstracted to an atom), the key and - possibly - the position of the slice.
    If it does not read the position it XORs with the key from its first byte (established by the obligations of xor's own
    computed result on the piece / the piece helper; xor itself by the property) and is only right when every slice starts
    at a multiple of len(key): start polynomial over the block index with the factor len(key) in every monomial.  If it
    rotates the key, `key[r:] + key[:r]` with r = N % len(key), then N - start must be such a multiple.  Consecutive slices
    must tile the data.  -> False when the result is not such a concatenation (nothing recorded)."""
    pieces = _concat_pieces(ex, s.end[1])
    if not pieces:
        return False
    node = s.end[2]
    seqs = {data, key}
    klname = f"len({key})"
    kl, n = SymPoly.atom(klname), SymPoly.atom(f"len({data})")
    F = _facts_of(s.conds, seqs)
    free_keys = _admits_long_keys(s.conds, data, key)  # a violation needs a witness key: any length > the offset in question
    J = ast.Name(id="$j", ctx=ast.Load())
    bad, und, good, infos, tiles = [], [], [], [], []
    for it, var, e, extra in pieces:
        e = _unview(e, seqs)
        chunks = [x for x in ast.walk(e) if isinstance(x, ast.Subscript) and isinstance(x.slice, ast.Slice) and _is_param(x.value, data)]
        if not chunks:
            if not _mentions(e, data) and not _mentions(e, key):
                continue  # a constant piece / separator: not a piece of the XOR
            und.append(f"piece `{_show(e)}` does not read one slice of the data")
            continue
        c = chunks[0]
        if len({src(x) for x in chunks}) != 1 or (c.slice.step is not None and _c(c.slice.step) != 1):
            und.append(f"piece `{_show(e)}` reads several slices of the data / a strided slice")
            continue
        binds = {src(c): "$chunk", f"len({data})": "$len"}
        a = _abstract(e, binds)
        rot = _key_rotation(a, key)
        if rot:
            binds[src(rot[0])] = "$rot"
            a = _abstract(a, binds)
        krole = "$rot" if rot and not _mentions(a, key) else key
        allowed = {"$chunk", "$len", "$rot", key} | ({var} if var else set())
        callee = None
        if isinstance(a, ast.Call) and dotted(a.func) is not None and dotted(a.func) not in _PURE_CALLS and not (isinstance(a.func, ast.Attribute) and a.func.attr == "to_bytes"):
            sym = ctx.rs.lookup_dotted(f.module.name, dotted(a.func))
            m = ctx.repo.modules.get(sym.module) if sym is not None and sym.kind == "func" else None
            g = m.funcs.get(sym.name) if m else None
            args = list(a.args) + [k.value for k in a.keywords]
            if g is None or g.cls or not isinstance(g.node, ast.FunctionDef) or g.node.decorator_list or g.node.args.vararg or g.node.args.kwarg \
                    or any(isinstance(x, (ast.Global, ast.Nonlocal)) for x in ast.walk(g.node)) \
                    or any(isinstance(x, ast.Starred) for x in a.args) or any(k.arg is None for k in a.keywords) or not all(_pure_term(x, allowed) for x in args):
                und.append(f"piece `{_show(e)}`: the callee is not a plain repository function of the slice and the key")
                continue
            callee = g
        elif not _pure_term(a, allowed):
            und.append(f"piece `{_show(e)}` is not a term over the slice and the key the rule models (iterators / other callees may carry the key position)")
            continue
        lo = c.slice.lower if c.slice.lower is not None else ast.Constant(value=0)
        # the start of the j-th slice as a polynomial over the block index (L22)
        pv = None
        if var is not None:
            rs = _range_start_step(it)
            if rs is None or not _mentions(lo, var):
                und.append(f"slice start `{_show(lo, 40)}` over `{_show(it, 60)}` is not a term of a range variable")
                continue
            at = lambda x, j: _subst_name(x, var, ast.BinOp(left=rs[0], op=ast.Add(), right=ast.BinOp(left=rs[1], op=ast.Mult(), right=j)))  # noqa: E731
            pv = _P(at(ast.Name(id=var, ctx=ast.Load()), J))
            p, p1 = _P(at(lo, J)), _P(at(lo, ast.Constant(value=1)))
        else:
            p = p1 = _P(lo)
        if p is None or p1 is None or (var is not None and pv is None):
            und.append(f"slice start `{_show(lo, 40)}` is not arithmetic")
            continue
        if var is not None and c.slice.upper is not None:
            # consecutive slices tile the data: the end of slice j is the start of slice j + 1 (L1: the piece lengths add up)
            pu, pn = _P(at(c.slice.upper, J)), _P(at(lo, ast.BinOp(left=J, op=ast.Add(), right=ast.Constant(value=1))))
            gap = None if pu is None or pn is None else _int_const(pn - pu)
            tiles.append((True, f"slice j ends at {pu!r}, where slice j + 1 starts") if gap == 0 else
                         (False, f"slice j ends at {pu!r} but slice j + 1 starts at {pn!r}: {'a gap of' if gap > 0 else 'an overlap of'} {abs(gap)} byte(s) between consecutive pieces, the result is not len({data}) bytes long") if gap is not None and not F.unknown and F.ge0(p1 - n) is not True else
                         (None, f"cannot compare the slice end `{_show(c.slice.upper, 40)}` with the next slice start"))
        infos.append(dict(e=e, a=a, callee=callee, var=var, pv=pv, lo=lo, p=p, p1=p1, rot=rot, krole=krole, extra=extra, binds=binds))

    # ---- what a piece computes from its slice: the obligations of xor's own computed result, with the slice as the data.
    #      `phase0`: the piece is established to XOR its slice with its key operand from that operand's first byte
    TXT = "return int.to_bytes(.., len(data), ..)"
    cache = {}
    for inf in infos:
        callee, a, krole = inf["callee"], inf["a"], inf["krole"]
        if callee is not None and callee.node is f.node:
            inf["phase0"] = True  # xor applied to the slice: the obligations of this very function, the property itself
            continue
        n0 = len(ctx.rep.obs)
        if callee is not None:
            gps = params(callee.node)
            b = _callargs(a, gps)
            roles = {v.id: k for k, v in (b or {}).items() if isinstance(v, ast.Name) and v.id in ("$chunk", krole)}
            ck = (id(callee.node), roles.get("$chunk"), roles.get(krole))
            if ck in cache:
                inf["phase0"] = cache[ck]
                continue
            if set(roles) != {"$chunk", krole}:
                ctx.undecided("R1", "ABS", f, TXT, f"piece helper `{callee.fq}`: cannot bind the slice and the key to its parameters in `{_show(a)}`", node)
            else:
                try:
                    gex, gstates = _paths(callee.node)
                except (_Unsupported, RecursionError):
                    gstates = None
                    ctx.undecided("R1", "ABS", f, TXT, f"piece helper `{callee.fq}` uses a construct the path executor does not model", node)
                for gs in gstates or ():
                    if gs.end[0] == "return" and gs.end[1] is not None and not _is_param(_strip_view(gs.end[1]), roles["$chunk"]):
                        _xor_computed(ctx, f, gex, gs, roles["$chunk"], roles[krole], depth=1)
            new = ctx.rep.obs[n0:]
            inf["phase0"] = cache[ck] = bool(new) and all(o.ok for o in new)
        else:
            st = _St(conds=list(s.conds) + [(_abstract(_unview(x, seqs), inf["binds"]), pol) for x, pol in inf["extra"]])
            st.end = ("return", a, node)
            _xor_computed(ctx, f, ex, st, "$chunk", krole, depth=1)
            new = ctx.rep.obs[n0:]
            inf["phase0"] = bool(new) and all(o.ok for o in new)

    # ---- the key phase of every piece against the start of its slice
    for inf in infos:
        e, a, var, p, p1, rot, lo = inf["e"], inf["a"], inf["var"], inf["p"], inf["p1"], inf["rot"], inf["lo"]
        if var is not None and _mentions(a, var):
            und.append(f"piece `{_show(e)}` reads the position of its slice in a way the rule does not model (modelled: key[r:] + key[:r] with r = <term> % len({key}))")
            continue
        if rot:
            pr = _P(rot[1])
            d = _DIVS.get(next(iter(pr.atoms()))) if pr is not None and len(pr.atoms()) == 1 and pr == SymPoly.atom(next(iter(pr.atoms()))) else None
            if d is None or d[0] != "md" or d[2] != kl:
                und.append(f"piece `{_show(e)}`: the rotation amount `{_show(rot[1], 40)}` is not <term> % len({key})")
                continue
            phase = _poly_subst(d[1], var, inf["pv"]) if var is not None else d[1]
            what = f"the key rotated by ({phase!r}) % len({key})"
        else:
            phase, what = SymPoly.const(0), "the key from its first byte"
        shift = _expand_mod(phase - p, kl)
        lacking = [mon for mon in shift.terms if klname not in mon]
        where = f"{p!r}" + (" ($j = 0, 1, ..)" if var is not None else "")
        if not lacking:
            good.append(f"the piece over the slice starting at {where} XORs with {what}: the difference {shift!r} is a multiple of len({key})")
            continue
        if F.ge0(p1 - n) is True:
            good.append(f"a slice that does not start at 0 starts at {p1!r} >= len({data}) on this path: it is empty")
            continue
        names = {x for mon in lacking for x in mon}
        keyfree = not any(re.search(rf"(?<![\w$]){re.escape(key)}(?![\w@])", x) for x in names) and not (var is not None and any(var in x for x in names))
        # without an established piece semantics: a function of (slice, key) alone cannot serve two different key phases
        functional = var is not None and not rot and any("$j" in mon for mon in lacking)
        if keyfree and free_keys and (inf["phase0"] or functional):
            bad.append(f"the piece `{_show(e, 90)}` XORs its slice with {what}" + ("" if rot else " (it reads only the bytes of the slice and the key, not where the slice starts)")
                       + f", but the slice starts at {where}: the key must continue at byte ({p!r}) % len({key}) there, and {(-shift)!r} is not a multiple of len({key}) for every key (L27)")
        elif keyfree and free_keys:
            und.append(f"piece `{_show(e)}`: the slice starts at {where}, not a multiple of len({key}), but what the piece computes from its slice is not established")
        else:
            und.append(f"cannot decide whether {(-shift)!r} (slice start minus key phase) is a multiple of len({key})" + ("" if free_keys else f" for the keys the path conditions {_cond_text(s.conds)[:4]} admit"))
    if not (bad or und or good):
        return False
    if bad:
        ctx.ob("R1", "ABS", f, BLOCKS, False, "; ".join(dict.fromkeys(bad))[:700] + f" (path {_cond_text(s.conds)})", node)
    elif und:
        ctx.undecided("R1", "ABS", f, BLOCKS, "; ".join(dict.fromkeys(und))[:400], node)
    else:
        ctx.ob("R1", "ABS", f, BLOCKS, True, "; ".join(dict.fromkeys(good))[:400], node)
    TILES = "block-wise xor slices tile the data"
    if any(t[0] is False for t in tiles):
        ctx.ob("R1", "ABS", f, TILES, False, "; ".join(dict.fromkeys(t[1] for t in tiles if t[0] is False))[:400], node)
    elif any(t[0] is None for t in tiles):
        ctx.undecided("R1", "ABS", f, TILES, "; ".join(dict.fromkeys(t[1] for t in tiles if t[0] is None))[:400], node)
    elif tiles:
        ctx.ob("R1", "ABS", f, TILES, True, "; ".join(dict.fromkeys(t[1] for t in tiles))[:400], node)
    return True


def r1(ctx):
    f = ctx.repo.func("utils.xor")
    ps = params(f.node)
    data, key = ps[0], ps[1]
    seqs = {data, key}
    ex, states = _try_paths(ctx, "R1", "ABS", f, "return kinds")
    if states is None:
        return
    rets = [s for s in states if s.end[0] == "return"]
    falls = [s for s in states if s.end[0] == "fall"]

    def identity(s):
        return s.end[1] is not None and _is_param(_strip_view(s.end[1]), data)

    ident = [s for s in rets if identity(s)]
    other = [s for s in rets if not identity(s)]
    ctx.ob("R1", "ABS", f, "return kinds", bool(rets) and not falls and all(s.end[1] is not None for s in rets),
           f"{len(ident)} identity return path(s), {len(other)} computed return path(s), {len(falls)} path(s) falling off the end")

    # ---- identity shortcut, decided over the abstract key domain {E empty, Z all-zero, N some byte non-zero}:
    #      every E key must end in an identity return (or compute the empty result of empty data); no N key with non-empty
    #      data may take an identity return
    def status(s, cls, data_nonempty):
        """(can keys of the class take the path?, number of both-ways tests that read key content, undecidable tests)"""
        nb, unk = 0, []
        for a, pol in s.conds:
            a = _unview(a, seqs)
            if not (_mentions(a, key) or _mentions(a, data)):
                continue
            r = _lin_test(a, lambda name: _key_iv(name, cls, data_nonempty, data, key))
            if r is None:
                unk.append(a)
            elif r == "R":
                return False, nb, unk
            elif r[0] == "B":
                nb += 1 if r[1] else 0
            elif (r[0] == "T") != pol:
                return False, nb, unk
        return True, nb, unk

    bad, unknown = [], []
    e_ident = e_maybe = False
    for s in rets:
        feas, _nb, unk = status(s, "E", False)
        if not feas:
            continue
        if identity(s):
            if unk:
                e_maybe = True
            else:
                e_ident = True
            continue
        F = _facts_of(s.conds, seqs)
        F.ge.append(-SymPoly.atom(f"len({key})"))  # class E: len(key) == 0
        if any(_div_by_len(v, key) for _st, v in s.events):
            handlers = [h for h in rets if identity(h) and _is_handler_path(h) and status(h, "E", False)[0]]
            if handlers:
                e_ident = True  # the division by len(key) == 0 raises and an exception handler returns the data
                continue
            wrong = "an empty key reaches the computed result (the key repetition divides by len(key) == 0)"
        elif F.ge0(-SymPoly.atom(f"len({data})")) is True:
            continue  # the path conditions force empty data: the (empty) computed result is the data
        else:
            wrong = "an empty key reaches the computed result instead of the unchanged data"
        (unknown if unk else bad).append((wrong, _cond_text(s.conds)))
    for s in ident:
        feas, nb, unk = status(s, "N", True)
        if not feas:
            continue
        if _is_handler_path(s):
            # entered only when the try body raises: with len(key) >= 1 the divisions by len(key) do not (L5)
            o = _other_raisers(states, key)
            if o:
                unknown.append((f"an exception handler returns the data and the key domain does not model whether `{o}` can raise", _cond_text(s.conds)))
            continue
        wrong = "a key with a non-zero byte can return non-empty data unchanged (L7/L8)"
        if unk or nb > 1:
            unknown.append((wrong + ("" if unk else ": several tests of key content, joint outcome not decided"), _cond_text(unk and [(x, True) for x in unk] or s.conds)))
        else:
            bad.append((wrong, _cond_text(s.conds)))
    if not ident:
        bad.append(("no path returns the data unchanged (empty or all-zero keys are not the identity)", []))
    elif not e_ident and not bad and not unknown:
        (unknown if e_maybe else bad).append(("no identity return is reachable by an empty key", [_cond_text(s.conds) for s in ident][:2]))
    if bad:
        ctx.ob("R1", "ABS", f, "return data", False, f"identity shortcut: {bad[0][0]}; path conditions {bad[0][1]}; required: taken by every empty key, never by a key with a non-zero byte", ident[0].end[2] if ident else None)
    elif unknown:
        ctx.undecided("R1", "ABS", f, "return data", f"identity shortcut guarded by a test on the key/data outside the key domain's transfer rules: {unknown[0][0]}; {unknown[0][1]}")
    else:
        ctx.ob("R1", "ABS", f, "return data", True, f"the unchanged data is returned on the paths empty and all-zero keys take ({[_cond_text(s.conds) for s in ident]}), on no path a key with a non-zero byte and non-empty data can take", ident[0].end[2])

    # ---- computed result
    for s in other:
        _xor_computed(ctx, f, ex, s, data, key)


def _xor_computed(ctx, f, ex, s, data, key, depth=0):
    """The obligations of one computed (non-identity) returning path `s` of a function with the roles (data, key): xor
    itself, or a repository helper a block-wise xor delegates its pieces to (obligations are recorded at xor, `f`)."""
    seqs = {data, key}
    n = SymPoly.atom(f"len({data})")
    v = s.end[1]
    node = s.end[2] if depth == 0 else None
    tb = _to_bytes(v)
    if tb is None:
        el = _xor_elementwise(v, data, key)
        if el is None:
            if depth == 0 and _xor_blockwise(ctx, f, ex, s, data, key):
                return
            ctx.undecided("R1", "ABS", f, "return int.to_bytes(.., len(data), ..)", f"computed result `{src(v)[:120]}` is neither int.to_bytes(from_bytes ^ from_bytes, ..) nor an element-wise XOR the rule models", node)
        else:
            ctx.ob("R1", "ABS", f, "return int.to_bytes(.., len(data), ..)", el, "element-wise XOR of every data byte with the key repeated cyclically (one output byte per data byte)" if el else f"element-wise XOR `{src(v)[:120]}` does not pair data[i] with key[i % len(key)]", node)
        return
    val = tb["value"]
    fbs = [_from_bytes(x) for x in ((val.left, val.right) if isinstance(val, ast.BinOp) and isinstance(val.op, ast.BitXor) else ())]
    if len(fbs) != 2 or any(x is None for x in fbs):
        ctx.undecided("R1", "ABS", f, "return int.to_bytes(.., len(data), ..)", f"the converted value `{src(val)[:120]}` is not int.from_bytes(..) ^ int.from_bytes(..)", node)
        return
    d_ops = [x for x in fbs if _is_param(_strip_view(x["bytes"]), data)]
    k_ops = [x for x in fbs if x not in d_ops]
    orders = [src(tb["byteorder"])] + [src(x["byteorder"]) for x in fbs]
    signed = [_c(x["signed"]) for x in fbs] + [_c(tb["signed"])]
    ord_ok = len(set(orders)) == 1 and all(x is False for x in signed)
    if len(d_ops) != 1 or len(k_ops) != 1:
        located = any(_mentions(x["bytes"], data) for x in fbs)
        if located and len(d_ops) == 0:
            ctx.ob("R1", "ABS", f, "return int.to_bytes(.., len(data), ..)", False, f"the data operand of the XOR is a transformed copy of the data: {[src(x['bytes'])[:80] for x in fbs]}", node)
        else:
            ctx.undecided("R1", "ABS", f, "return int.to_bytes(.., len(data), ..)", f"cannot tell the data operand from the key operand in {[src(x['bytes'])[:80] for x in fbs]}", node)
        return
    K, L = _unview(k_ops[0]["bytes"], seqs), _unview(tb["length"], seqs)
    F = _facts_of(s.conds, seqs)
    # length argument: len(data) in normal form (len of slices / repetitions resolved by the length algebra L1)
    pl = _P(L, F.len_poly)
    vocab = all(a in (f"len({data})", f"len({key})") or a in _DIVS for a in pl.atoms()) if pl is not None else False
    if not ord_ok or (pl is not None and pl != n and vocab and not F.unknown):
        ctx.ob("R1", "ABS", f, "return int.to_bytes(.., len(data), ..)", False,
               f"result length must be len({data}) (length argument is {pl!r} on the path {_cond_text(s.conds)}); one unsigned byte order for both from_bytes and to_bytes: {orders}, signed={signed} -> {ord_ok}", node)
    elif pl is None or pl != n:
        ctx.undecided("R1", "ABS", f, "return int.to_bytes(.., len(data), ..)", f"length argument `{src(L)[:80]}` ({pl!r}) is outside the length algebra", node)
    else:
        ctx.ob("R1", "ABS", f, "return int.to_bytes(.., len(data), ..)", True, f"result length is len({data}) in normal form; value is from_bytes({data}) ^ from_bytes(keystream) with one unsigned byte order {orders[0]}", node)
    ok, why = _keystream(K, F, data, key)
    if ok is None:
        ctx.undecided("R1", "ABS", f, "key tiled then cut to size", why, node)
    else:
        ctx.ob("R1", "ABS", f, "key tiled then cut to size", ok, ("" if ok else f"the key operand of the XOR must be the key repeated and cut to exactly len({data}) bytes: ") + why + f" (path {_cond_text(s.conds)})", node)


# ===================================================================================================== R2 pack / unpack
def _partial_target(ctx, mod, name, depth=0):
    """Module-level `name` -> (base function name, bound keyword constants) through partial(..) chains, plain aliases and
    one-line wrapper functions/lambdas; None when the definition has another shape."""
    if depth > 6:
        return None
    if name in mod.funcs and name not in mod.consts:
        fn = mod.funcs[name].node
        if name in ("pack", "unpack"):
            return name, {}, []
        try:
            _ex, states = _paths(fn)
        except (_Unsupported, RecursionError):
            return None
        rets = [s for s in states if s.end[0] == "return"]
        if len(rets) != 1 or len(states) != 1:
            return None
        return _wrapper_call(ctx, mod, rets[0].end[1], params(fn), depth)
    val = mod.consts.get(name)
    if val is None:
        return None
    if isinstance(val, ast.Name):
        return _partial_target(ctx, mod, val.id, depth + 1)
    if isinstance(val, ast.Lambda):
        return _wrapper_call(ctx, mod, val.body, params(val), depth)
    if isinstance(val, ast.Call) and dotted(val.func) in ("partial", "functools.partial") and val.args and isinstance(val.args[0], ast.Name):
        base = _partial_target(ctx, mod, val.args[0].id, depth + 1)
        if base is None or len(val.args) > 1 or any(k.arg is None for k in val.keywords):
            return None
        tgt, kws, passed = base
        kws = dict(kws)
        for k in val.keywords:
            kws[k.arg] = k.value
        return tgt, kws, passed
    return None


def _wrapper_call(ctx, mod, v, ps, depth):
    """`lambda data: unpack(data, size=1)` / def wrappers: one positional pass-through argument, keyword constants."""
    if not (isinstance(v, ast.Call) and isinstance(v.func, ast.Name) and len(ps) == 1 and len(v.args) >= 1 and _is_param(v.args[0], ps[0])):
        return None
    base = _partial_target(ctx, mod, v.func.id, depth + 1)
    if base is None or any(k.arg is None for k in v.keywords):
        return None
    tgt, kws, passed = base
    fn = mod.funcs[tgt].node
    names = params(fn)
    kws = dict(kws)
    for n, a in zip(names[1:], v.args[1:]):
        kws[n] = a
    for k in v.keywords:
        kws[k.arg] = k.value
    return tgt, kws, passed


def _none_test(a, p):
    """`p is None` / `p == None` (mirrored too) -> True, `p is not None` / `p != None` -> False, anything else -> None."""
    if isinstance(a, ast.Compare) and len(a.ops) == 1:
        l, r = a.left, a.comparators[0]
        if isinstance(l, ast.Constant) and l.value is None:
            l, r = r, l
        if _is_param(l, p) and isinstance(r, ast.Constant) and r.value is None:
            if isinstance(a.ops[0], (ast.Is, ast.Eq)):
                return True
            if isinstance(a.ops[0], (ast.IsNot, ast.NotEq)):
                return False
    return None


def _flag_through(e, flag, conds):
    """The boolean argument `e` is the parameter `flag` itself (bool(flag) too), or the constant the path conditions fix the
    flag's truth to (`if flag: f(.., True) else: f(.., False)`)."""
    if isinstance(e, ast.Call) and dotted(e.func) == "bool" and len(e.args) == 1 and not e.keywords:
        e = e.args[0]
    if _is_param(e, flag):
        return True
    c = _c(e)
    return isinstance(c, bool) and any(_is_param(a, flag) and pol == c for a, pol in conds)


def _width_on_path(conds, data, others=()):
    """Largest number of bytes the conversion can cover on a path, read off its conditions over len(data), the truth of the
    data and the width parameter `size` (interval sets; case `size is None`: the whole data / the minimal width, unbounded)
    -> (bound | "skip" when only widths below one byte or no data length take the path, conditions on the data / size / the
    `others` parameters that are not such tests)."""
    dom, full = (0, _INF), (-_INF, _INF)
    dlen, sz, none_cases, unknown = [dom], [full], [True, False], []
    for a, pol in conds:
        if data is not None:
            a = _unview(a, {data})
            t = [(1, _INF)] if _is_param(a, data) else _atom_set(a, f"len({data})", dom)
            if t is not None:
                dlen = _iv_and(dlen, t if pol else _iv_not(t, dom))
                continue
        nt = _none_test(a, "size")
        if nt is not None:
            none_cases = [x for x in none_cases if x == (nt == pol)]
            continue
        if _is_param(a, "size"):  # truth of the width: neither None nor 0
            if pol:
                none_cases, sz = [x for x in none_cases if not x], _iv_and(sz, [(-_INF, -1), (1, _INF)])
            else:
                sz = _iv_and(sz, [(0, 0)])
            continue
        it = _int_test(a)
        if it is not None and it[0] == "size":
            t = _iv_cmp(it[1], it[2], full)
            sz = _iv_and(sz, t if pol else _iv_not(t, full))
            if it[1] not in (ast.Eq, ast.NotEq) or (it[1] is ast.Eq) == pol:
                none_cases = [x for x in none_cases if not x]  # an ordering was evaluated / equality with an int holds: size is an int
            continue
        if (data is not None and _mentions(a, data)) or _mentions(a, "size") or any(_mentions(a, o) for o in others):
            unknown.append(a)
    widths = _iv_and(sz, [(1, _INF)])
    cases = ([widths[-1][1]] if False in none_cases and widths else []) + ([_INF] if True in none_cases else [])
    if not cases or not dlen:
        return "skip", unknown
    hi = max(cases)
    if data is not None:
        hi = min(hi, dlen[-1][1])
    return hi, unknown


def _term_reads(ex, e, arg, seen=None):
    """Does the path term read the parameter `arg`?  True: it mentions it, directly or through a loop-carried symbol whose
    loop (iterable, start values, one iteration's terms and conditions) mentions it; False: it does not; None: the term
    contains a symbol whose definition the executor does not expose (handler / with targets, opaque bindings)."""
    if e is None:
        return False
    if _mentions(e, arg):
        return True
    seen = set() if seen is None else seen
    res = False
    for n in ast.walk(e):
        if not (isinstance(n, ast.Name) and "@" in n.id):
            continue
        k = n.id.partition("@")[2].rstrip("p")
        lp = ex.loops.get(int(k)) if k.isdigit() else None
        if lp is None:
            res = None
            continue
        if k in seen:
            continue
        seen.add(k)
        terms = [lp.iter] + list(lp.pre.values()) + [v for b in lp.iters for v in b.env.values()] + [a for b in lp.iters for a, _pol in b.conds]
        for t in terms:
            r = _term_reads(ex, t, arg, seen)
            if r:
                return True
            if r is None:
                res = None
    return res


def _reads_argument(ctx, f, ex, states, data, arg, free_width, why, others=()):
    """Every returning path of a conversion must read the argument `arg` - in the returned term or in a condition of the
    path - unless the path is confined to at most `free_width` bytes, where the conversion does not depend on it (L26)."""
    text = f"result depends on {arg}"
    fname = f.node.name
    bad, und, reads, special, narrow = [], [], 0, 0, 0
    for s in states:
        if s.end[0] != "return" or s.end[1] is None:
            continue
        r = _term_reads(ex, s.end[1], arg)
        if r:
            reads += 1
            continue
        if any(_mentions(a, arg) for a, _pol in s.conds):
            special += 1  # a path specialised for one value of the argument: what it returns for that value is not judged here
            continue
        hi, unknown = _width_on_path(s.conds, data, others)
        if hi == "skip" or hi <= free_width:
            narrow += 1
        elif r is None:
            und.append(f"`{_show(s.end[1], 60)}` contains a value whose definition the path executor does not expose: whether it reads `{arg}` is not known")
        elif unknown:
            und.append(f"`{_show(s.end[1], 60)}` is returned without reading `{arg}` on the path {_cond_text(s.conds)[:4]}, whose conditions {[src(x)[:40] for x in unknown[:2]]} are not tests of the data length / width the rule models")
        else:
            bad.append(f"`{_show(s.end[1], 60)}` is returned on the path {_cond_text(s.conds)[:4]} without reading `{arg}` (neither the value nor a path condition mentions it), for " + ("any width" if hi == _INF else f"widths up to {hi} byte(s)") + f": {why}")
    if bad:
        ctx.ob("R2", "AGREE", f, text, False, f"{fname}: " + "; ".join(dict.fromkeys(bad))[:600])
    elif und:
        ctx.undecided("R2", "AGREE", f, text, f"{fname}: " + "; ".join(dict.fromkeys(und))[:400])
    elif reads + special + narrow:
        ctx.ob("R2", "AGREE", f, text, True, f"{fname}: {reads} returning path(s) read `{arg}` in the returned term, {special} are selected by a test of it, {narrow} are confined to at most {free_width} byte(s), where the conversion does not depend on it (L26)")


def r2(ctx):
    mod = ctx.repo.module("utils")
    n = 0
    names = sorted(set(mod.consts) | {q for q in mod.funcs if "." not in q})
    pfn = {"pack": ctx.repo.func("utils.pack"), "unpack": ctx.repo.func("utils.unpack")}
    defaults = {k: {p: _c(d) for p, d in param_defaults(v.node).items()} for k, v in pfn.items()}
    for name in names:
        m = re.fullmatch(r"([up])(8|16|32|64)(be)?", name)
        m2 = re.fullmatch(r"(un)?pack_be", name)
        if not m and not m2:
            continue
        if m:
            n += 1
            want_t = "unpack" if m.group(1) == "u" else "pack"
            want_size, want_bo = int(m.group(2)) // 8, "big" if m.group(3) else "little"
        else:
            want_t, want_size, want_bo = ("unpack" if m2.group(1) else "pack"), None, "big"
        where = f"utils.py::{name}"
        r = _partial_target(ctx, mod, name)
        if r is None:
            ctx.undecided("R2", "TABLE", where, "partial", f"{name} is not a partial(..) chain / alias / one-line wrapper over pack or unpack: {src(mod.consts.get(name))[:100] if name in mod.consts else 'def'}", mod.consts.get(name))
            continue
        tgt, kws, _p = r
        eff = dict(defaults.get(tgt, {}))
        unknown = []
        for k, v in kws.items():
            cv = _c(v)
            if cv is None and not (isinstance(v, ast.Constant) and v.value is None):
                unknown.append(k)
            eff[k] = cv
        if unknown:
            ctx.undecided("R2", "TABLE", where, "partial", f"{name}: bound argument(s) {unknown} are not constants", mod.consts.get(name))
            continue
        ok = tgt == want_t and eff.get("size") == want_size and eff.get("byteorder") == want_bo and eff.get("signed") is False and set(kws) <= {"size", "byteorder", "signed"}
        ctx.ob("R2", "TABLE", where, "partial", ok,
               f"{name} = {tgt}(size={eff.get('size')}, byteorder={eff.get('byteorder')!r}, signed={eff.get('signed')}); required {want_t}(size={want_size}, byteorder={want_bo!r}, signed=False)", mod.consts.get(name))
    ctx.rep.count("pack_unpack_partials", n, floor=14)

    # ---- unpack: int.from_bytes(data[:size], byteorder, signed) with the parameters passed through
    u = pfn["unpack"]
    ups = params(u.node)
    ex, states = _try_paths(ctx, "R2", "AGREE", u, "unpack")
    if states is not None:
        d = defaults["unpack"]
        dflt_ok = d.get("byteorder") == "little" and d.get("signed") is False and "size" in d and d.get("size") is None and ups[:1] + sorted(ups[1:]) == ups[:1] + ["byteorder", "signed", "size"]
        verdict, why = True, []
        rets = [s for s in states if s.end[0] == "return"]
        if not rets or any(s.end[0] == "fall" for s in states):
            verdict, why = False, ["a path does not return a value"]
        for s in rets:
            fb = _from_bytes(s.end[1]) if s.end[1] is not None else None
            if fb is None:
                verdict, why = (None if verdict is not False else False), why + [f"return value `{src(s.end[1])[:80]}` is not int.from_bytes(..)"]
                continue
            b = fb["bytes"]
            cut_ok = False
            if isinstance(b, ast.Subscript) and isinstance(b.slice, ast.Slice) and _is_param(_strip_view(b.value), ups[0]):
                lo, hi, stp = b.slice.lower, b.slice.upper, b.slice.step
                fixed = next((t[2] for t in (_int_test(a) if pol else None for a, pol in s.conds) if t is not None and t[0] == "size" and t[1] is ast.Eq), None)
                cut_ok = (lo is None or _c(lo) == 0) and hi is not None and (_is_param(hi, "size") or (fixed is not None and _c(hi) == fixed)) and (stp is None or _c(stp) == 1)
            elif _is_param(_strip_view(b), ups[0]):
                # the whole data: only correct on a path where size is None
                cut_ok = any(src(a) == "size is None" and pol or src(a) == "size is not None" and not pol for a, pol in s.conds)
            one_byte = _width_on_path(s.conds, ups[0])[0]
            thru = (_is_param(fb["byteorder"], "byteorder") or (_c(fb["byteorder"]) in ("little", "big") and (one_byte == "skip" or one_byte <= 1))) and _flag_through(fb["signed"], "signed", s.conds)  # L26: one byte reads the same in both orders
            if not (cut_ok and thru):
                verdict = False  # located and wrong on this path, whatever the other paths return
                why.append(f"int.from_bytes({src(b)}, {src(fb['byteorder'])}, signed={src(fb['signed'])})")
        if verdict is None:
            ctx.undecided("R2", "AGREE", u, "unpack", "; ".join(why))
        else:
            ctx.ob("R2", "AGREE", u, "unpack", bool(verdict and dflt_ok), "unpack passes byteorder/signed through to int.from_bytes over data[:size] (defaults little, unsigned)" if verdict and dflt_ok else f"unpack: {why or 'defaults ' + str(d)}")

        # a returning path that ignores `signed` / `byteorder` is only right where the conversion does not depend on them
        if len(ups) >= 1 and {"size", "byteorder", "signed"} <= set(ups[1:]):
            _reads_argument(ctx, u, ex, states, ups[0], "signed", 0, "int.from_bytes(.., signed=True) and (.., signed=False) differ on every chunk whose most significant byte is >= 0x80, which is what pack produces for the negative values of a width (L26)")
            _reads_argument(ctx, u, ex, states, ups[0], "byteorder", 1, "the little- and big-endian readings of a chunk of two or more bytes differ unless it is a palindrome (L26)")

    # ---- pack: n.to_bytes(size, byteorder, signed); minimal size exactly when size is None
    p = pfn["pack"]
    pps = params(p.node)
    ex, states = _try_paths(ctx, "R2", "AGREE", p, "pack")
    if states is not None:
        d = defaults["pack"]
        dflt_ok = d.get("byteorder") == "little" and d.get("signed") is False and "size" in d and d.get("size") is None and pps[:1] + sorted(pps[1:]) == pps[:1] + ["byteorder", "signed", "size"]
        verdict, why = True, []
        rets = [s for s in states if s.end[0] == "return"]
        if not rets or any(s.end[0] == "fall" for s in states):
            verdict, why = False, ["a path does not return a value"]
        for s in rets:
            tb = _to_bytes(s.end[1]) if s.end[1] is not None else None
            if tb is None:
                verdict, why = (None if verdict is not False else False), why + [f"return value `{src(s.end[1])[:80]}` is not <int>.to_bytes(..)"]
                continue
            thru = _is_param(tb["value"], pps[0]) and _is_param(tb["byteorder"], "byteorder") and _flag_through(tb["signed"], "signed", s.conds)
            L = tb["length"]
            # which case of `size` is this path?  (case analysis over the code's own None-tests of the parameter)
            envs, unk = [True, False], []
            for a, pol in s.conds:
                t = _none_test(a, "size")
                if t is None:
                    it = _int_test(a) if _mentions(a, "size") else None
                    if it is not None and it[0] == "size":
                        # a comparison of the width with an integer: an ordering that was evaluated / an equality that holds
                        # means size is an int (the case `size given`); a failed equality says nothing about None
                        if it[1] not in (ast.Eq, ast.NotEq) or (it[1] is ast.Eq) == pol:
                            envs = [x for x in envs if not x]
                    elif _mentions(a, "size"):
                        unk.append(a)
                    continue
                envs = [x for x in envs if x == (t == pol)]
            if not envs and not unk:
                continue  # `size` would be None and an int at once: no call takes this path
            if unk:
                envs = []
            len_ok = True
            for none in envs:
                if not none:
                    if not _is_param(L, "size"):
                        len_ok = False
                        why.append(f"with a given size the length argument is `{src(L)}`")
                elif _is_param(L, "size"):
                    len_ok = False
                    why.append("with size None the length argument is None")
                else:
                    # minimal byte count: ceil(bit_length / 8) in normal form (L10)
                    b = SymPoly.atom(f"{pps[0]}.bit_length()")
                    pl = _P(L)
                    good = (_div_atom("fd", b + SymPoly.const(7), SymPoly.const(8)), _div_atom("cd", b, SymPoly.const(8)))
                    if pl is not None and pl in good:
                        continue
                    known = pl is not None and all(x == f"{pps[0]}.bit_length()" or (x in _DIVS and _int_const(_DIVS[x][2]) is not None and _DIVS[x][1].atoms() <= {f"{pps[0]}.bit_length()"}) for x in pl.atoms())
                    if known:
                        len_ok = False
                        why.append(f"with size None the length argument `{src(L)}` = {pl!r} is not the minimal byte count ceil(bit_length / 8) = (bit_length + 7) // 8")
                    elif verdict is not False:
                        verdict = None
                        why.append(f"minimal size `{src(L)}` is not one of the recognised forms of ceil(bit_length / 8)")
            if not envs:
                verdict = None if verdict is not False else False
                why.append(f"path conditions {_cond_text(s.conds)} not decidable for size None / given")
            if not (thru and len_ok):
                verdict = False
                if not thru:
                    why.append(f"{src(tb['value'])}.to_bytes(.., {src(tb['byteorder'])}, signed={src(tb['signed'])})")
        if verdict is None:
            ctx.undecided("R2", "AGREE", p, "pack", "; ".join(why))
        else:
            ctx.ob("R2", "AGREE", p, "pack", bool(verdict and dflt_ok), "pack passes byteorder/signed through to int.to_bytes and sizes minimally only when size is None" if verdict and dflt_ok else f"pack: {why or 'defaults ' + str(d)}")


        if len(pps) >= 1 and {"size", "byteorder", "signed"} <= set(pps[1:]):
            _reads_argument(ctx, p, ex, states, None, "byteorder", 1, "the little- and big-endian byte strings of a value differ at every width of two or more bytes unless they are palindromes (L26)", others=pps[:1])


# ===================================================================================================== R7 pack is total on the representable range
_W = "$W"  # the atom 2**(8*size): the number of values of `size` bytes; a multiple of 256 for every width size >= 1 (L25)


def _affine_in(E, name):
    """`E` as a*name + b with integer a, b -> (a, b); None when it is not such a term."""
    pe = _P(E)
    if pe is None or not set(pe.terms) <= {(), (name,)}:
        return None
    a, b = pe.terms.get((name,), Fraction(0)), pe.terms.get((), Fraction(0))
    return (int(a), int(b)) if a.denominator == 1 and b.denominator == 1 else None


def _pw(e, n, size):
    """Normal form of an integer term over the value parameter `n` and the atom $W = 2**(8*size): powers of two whose
    exponent is 8*size + b (`c << (8*size + b)`, `2 ** (8*size + b)`, `256 ** size`, ..) become (c * 2**b) * $W, an exact
    halving `t >> k` / `t // 2**k` of a pure multiple of $W divides its coefficient (L25).  None: outside these forms."""
    if isinstance(e, ast.Constant):
        return SymPoly.const(e.value) if type(e.value) is int else None
    if isinstance(e, ast.Name):
        return SymPoly.atom(n) if e.id == n else None
    if isinstance(e, ast.Call) and dotted(e.func) == "int" and len(e.args) == 1 and not e.keywords:
        return _pw(e.args[0], n, size)
    if isinstance(e, ast.UnaryOp) and isinstance(e.op, (ast.USub, ast.UAdd)):
        v = _pw(e.operand, n, size)
        return None if v is None else (-v if isinstance(e.op, ast.USub) else v)
    if not isinstance(e, ast.BinOp):
        return None
    if isinstance(e.op, (ast.LShift, ast.Pow)):
        base = _c(e.left)
        ab = _affine_in(e.right, size)
        if type(base) is not int or ab is None:
            return None
        a, b = ab
        if isinstance(e.op, ast.LShift):
            m, c = 1, base  # c * 2**(a*size + b)
        else:
            m = base.bit_length() - 1
            if base < 2 or base != 1 << m:
                return None
            c = 1  # 2**(m*a*size + m*b)
        if m * a == 0:
            return SymPoly.const(c * Fraction(2) ** (m * b)) if m * b >= 0 else None
        if m * a != 8 or m * b < -8 or abs(m * b) > 64:
            return None
        return SymPoly.atom(_W) * SymPoly.const(c * Fraction(2) ** (m * b))
    l = _pw(e.left, n, size)
    if l is None:
        return None
    if isinstance(e.op, (ast.RShift, ast.FloorDiv)):
        k = _c(e.right)
        if type(k) is not int:
            return None
        d = (1 << k) if isinstance(e.op, ast.RShift) and 0 <= k <= 64 else k if isinstance(e.op, ast.FloorDiv) and k >= 1 else None
        if d is None or set(l.terms) != {(_W,)} or (l.terms[(_W,)] * 256 / d).denominator != 1:
            return None  # only the exact division of a multiple of $W is a polynomial (256 divides $W)
        return l.div_const(d)
    r = _pw(e.right, n, size)
    if r is None:
        return None
    if isinstance(e.op, ast.Add):
        return l + r
    if isinstance(e.op, ast.Sub):
        return l - r
    if isinstance(e.op, ast.Mult):
        return l * r
    return None


def _w_sign(p):
    """Sign of a*$W + b over all widths ($W in {256, 65536, ..}): ">=0" / "<0" when it is the same at every width
    (L25: for a >= 0 the term is non-decreasing in $W, so its minimum is at $W = 256; dually for a <= 0), else None."""
    if not set(p.terms) <= {(), (_W,)}:
        return None
    a, b = p.terms.get((_W,), Fraction(0)), p.terms.get((), Fraction(0))
    lo = a * 256 + b
    if lo.denominator != 1 or b.denominator != 1:
        return None
    if a >= 0 and lo >= 0:
        return ">=0"
    if a <= 0 and lo < 0:
        return "<0"
    return None


def _n_bounds(a, pol, n, size):
    """A path condition that compares the value parameter `n` with terms over $W, as alternatives (a disjunction) of
    conjunctions of bounds ("lo" | "hi", polynomial): n >= p / n <= p.  None when the condition has another form."""
    if not (isinstance(a, ast.Compare) and all(type(o) in _OPS6 for o in a.ops)):
        return None
    simple = []  # per link of the chain: alternatives of bound lists
    items = [a.left] + list(a.comparators)
    for l, op, r in zip(items, a.ops, items[1:]):
        pl, pr = _pw(l, n, size), _pw(r, n, size)
        if pl is None or pr is None:
            return None
        d = pl - pr
        sn = d.terms.get((n,), Fraction(0))
        if sn not in (1, -1) or not set(d.terms) <= {(), (n,), (_W,)}:
            return None
        q = SymPoly({k: v for k, v in d.terms.items() if k != (n,)})
        op = type(op)
        if not pol:
            op = {ast.Lt: ast.GtE, ast.LtE: ast.Gt, ast.Gt: ast.LtE, ast.GtE: ast.Lt, ast.Eq: ast.NotEq, ast.NotEq: ast.Eq}[op]
        if sn == 1:
            B = -q  # n + q op 0  <=>  n op -q
        else:
            B, op = q, _FLIP[op]  # -n + q op 0  <=>  n flip(op) q
        simple.append({
            ast.Lt: [[("hi", B - _ONE)]], ast.LtE: [[("hi", B)]], ast.Gt: [[("lo", B + _ONE)]], ast.GtE: [[("lo", B)]],
            ast.Eq: [[("lo", B), ("hi", B)]], ast.NotEq: [[("hi", B - _ONE)], [("lo", B + _ONE)]],
        }[op])
    if pol:  # conjunction of the links
        out = [[]]
        for alts in simple:
            out = [x + y for x in out for y in alts]
        return out
    return [y for alts in simple for y in alts]  # negated chain: some link fails


def _range_text(bounds, n="n"):
    """The bounds as text, without the ones another bound of the same side implies at every width."""
    lo = list(dict.fromkeys(p for k, p in bounds if k == "lo"))
    hi = list(dict.fromkeys(p for k, p in bounds if k == "hi"))
    lo = [x for x in lo if not any(y != x and _w_sign(y - x) == ">=0" for y in lo)]
    hi = [x for x in hi if not any(y != x and _w_sign(x - y) == ">=0" for y in hi)]
    return " and ".join([f"{n} >= {x!r}" for x in lo] + [f"{n} <= {x!r}" for x in hi])


def r7(ctx):
    """pack() must not reject an integer that is representable at the requested width: every path of pack that ends in
    a `raise` (or a failing assert) is read as a region of the value parameter - a union of intervals whose bounds are
    polynomials a*$W + b - per case of `signed` and of `size is None`; the region must not meet the representable range
    [-$W/2, $W/2 - 1] (signed) / [0, $W - 1] (unsigned; size None: [0, inf))."""
    p = ctx.repo.func("utils.pack")
    pps = params(p.node)
    TEXT = "raise paths vs representable range"
    if len(pps) < 1 or not {"size", "byteorder", "signed"} <= set(pps[1:]):
        ctx.undecided("R7", "DOM", p, TEXT, f"pack no longer has the parameters size, byteorder, signed: {pps}")
        return
    n = pps[0]
    ex, states = _try_paths(ctx, "R7", "DOM", p, TEXT)
    if states is None:
        return
    raises = [s for s in states if s.end[0] == "raise" and not _is_handler_path(s)]
    bad, und = [], []
    W = SymPoly.atom(_W)
    half = W.div_const(2)
    for s in raises:
        signed_cases, none_cases = [True, False], [True, False]
        regions = [[]]
        skip = why = None
        for a, pol in s.conds:
            ns = _names(a) & set(pps)
            if not ns:
                why = why or f"condition `{src(a)[:60]}` does not test the arguments"
            elif isinstance(a, ast.Name) and a.id == "signed":
                signed_cases = [x for x in signed_cases if x == pol]
            elif _none_test(a, "size") is not None:
                none_cases = [x for x in none_cases if x == (_none_test(a, "size") == pol)]
            elif ns == {"byteorder"}:
                # case analysis over the two byte orders int.to_bytes knows: a path neither can take is not judged
                feasible = []
                for bo in ("little", "big"):
                    try:
                        feasible.append(bool(_fold(_abstract(a, {"byteorder": "$bo"}), {"$bo": bo})) == pol)
                    except _Raises:
                        feasible.append(False)
                    except _NoEval:
                        why = why or f"condition `{src(a)[:60]}` on the byte order is not a constant test"
                        break
                if why is None and not any(feasible):
                    skip = True
            elif ns == {"size"}:
                t = _atom_set(a, "size", (-_INF, _INF))
                if t is None:
                    why = why or f"condition `{src(a)[:60]}` is not an interval test of the width"
                elif not _iv_and(t if pol else _iv_not(t, (-_INF, _INF)), [(1, _INF)]):
                    skip = True  # only widths below one byte
            elif n in ns and ns <= {n, "size"}:
                alts = _n_bounds(a, pol, n, "size")
                if alts is None:
                    why = why or f"condition `{('' if pol else 'not ') + src(a)[:80]}` is not a comparison of the value with terms a*2**(8*size) + b"
                else:
                    regions = [x + y for x in regions for y in alts]
                    if len(regions) > 64:
                        why = why or "too many alternatives"
                        regions = regions[:64]
            else:
                why = why or f"condition `{src(a)[:60]}` mixes arguments in a way the rule does not model"
        if skip or not signed_cases or not none_cases:
            continue
        if why:
            und.append(f"{why} (path {_cond_text(s.conds)[:4]})")
            continue
        uses_w = any(_W in q.atoms() for reg in regions for _k2, q in reg)
        for reg in regions:
            for none in none_cases:
                if none and uses_w:
                    continue  # a term 2**(8*size) was evaluated: size is an integer on this path
                for sg in signed_cases:
                    if none and sg:
                        continue  # minimal-width signed packing is partial in int.to_bytes itself: not judged
                    rep = [("lo", SymPoly.const(0))] if none else [("lo", -half), ("hi", half - _ONE)] if sg else [("lo", SymPoly.const(0)), ("hi", W - _ONE)]
                    allb = reg + rep
                    signs = [_w_sign(u - l) for k1, l in allb if k1 == "lo" for k2, u in allb if k2 == "hi"]
                    if any(x == "<0" for x in signs):
                        continue  # the raising region lies outside the representable range
                    case = f"signed={sg}, " + ("size None" if none else "size given, $W = 2**(8*size)")
                    if all(x == ">=0" for x in signs):
                        bad.append(f"{case}: the raising path {_cond_text(s.conds)[:4]} is taken by the representable value(s) {_range_text(allb, n)} at every width (L25)")
                    else:
                        und.append(f"{case}: whether the raising region {_range_text(reg, n) or 'all values'} meets the representable range depends on the width")
    if bad:
        ctx.ob("R7", "DOM", p, TEXT, False, "pack must not reject an integer representable at the width (int.to_bytes accepts it and unpack yields it): " + "; ".join(dict.fromkeys(bad))[:500], raises[0].end[2])
    elif und:
        ctx.undecided("R7", "DOM", p, TEXT, "; ".join(dict.fromkeys(und))[:400])
    else:
        ctx.ob("R7", "DOM", p, TEXT, True, f"{len(raises)} raising path(s) of pack's own" + (": every integer int.to_bytes accepts at the width is packed" if not raises else ", each confined to values outside [-$W/2, $W/2 - 1] (signed) / [0, $W - 1] (unsigned), $W = 2**(8*size)"))


# ===================================================================================================== R3 checksum8 / classifiers
def _calls_to(ctx, f, e, fq):
    """Call nodes inside term `e` whose callee resolves (from f's module) to the repository function `fq`."""
    out = []
    for n in ast.walk(e):
        if isinstance(n, ast.Call):
            d = dotted(n.func)
            if d is None:
                continue
            s = ctx.rs.lookup_dotted(f.module.name, d)
            if s is not None and s.kind in ("func", "partial") and s.fq == fq:
                out.append(n)
    return out


def _keeps_all_but_slash(c, v):
    """Comprehension filter over the character variable v: `v != "/"` (mirrored, `not v == "/"`, `v not in "/"`) -> True;
    the same test against another constant -> False; anything else -> None."""
    pol = True
    while isinstance(c, ast.UnaryOp) and isinstance(c.op, ast.Not):
        c, pol = c.operand, not pol
    if not (isinstance(c, ast.Compare) and len(c.ops) == 1):
        return None
    l, r, op = c.left, c.comparators[0], c.ops[0]
    if isinstance(l, ast.Constant) and isinstance(op, (ast.Eq, ast.NotEq)):
        l, r = r, l
    if not (_is_param(l, v) and isinstance(r, ast.Constant) and isinstance(r.value, str)):
        return None
    if isinstance(op, (ast.NotEq, ast.NotIn)):
        keeps_others = pol
    elif isinstance(op, (ast.Eq, ast.In)):
        keeps_others = not pol
    else:
        return None
    return keeps_others and r.value == "/"


def _codepoint_sum(e, p):
    """Is `e` the sum of the code points of parameter p without its '/' characters?  True / False (located, wrong) / None."""
    if not (isinstance(e, ast.Call) and dotted(e.func) == "sum" and len(e.args) == 1 and not e.keywords):
        return None
    a = e.args[0]
    filt = False
    if isinstance(a, ast.Call) and dotted(a.func) == "map" and len(a.args) == 2 and dotted(a.args[0]) == "ord":
        t = a.args[1]
    elif isinstance(a, (ast.GeneratorExp, ast.ListComp)) and len(a.generators) == 1 and isinstance(a.generators[0].target, ast.Name):
        g = a.generators[0]
        v = g.target.id
        if not (isinstance(a.elt, ast.Call) and dotted(a.elt.func) == "ord" and len(a.elt.args) == 1 and _is_param(a.elt.args[0], v)):
            return None
        t = g.iter
        for c in g.ifs:
            k = _keeps_all_but_slash(c, v)
            if k is None:
                return None
            if not k:
                return False
            filt = True
    else:
        return None
    # t: the text, with '/' removed unless filtered above
    if isinstance(t, ast.Call) and isinstance(t.func, ast.Attribute) and t.func.attr == "replace" and _is_param(t.func.value, p):
        args = [_c(x) for x in t.args]
        return args[:2] == ["/", ""] and len(args) == 2
    if isinstance(t, ast.Call) and isinstance(t.func, ast.Attribute) and t.func.attr == "join" and _c(t.func.value) == "" and len(t.args) == 1 \
            and isinstance(t.args[0], ast.Call) and isinstance(t.args[0].func, ast.Attribute) and t.args[0].func.attr == "split" and _is_param(t.args[0].func.value, p):
        return [_c(x) for x in t.args[0].args] == ["/"]
    if _is_param(t, p):
        return filt
    return None


# L31: the code units of a text encoding are not the code points.  canonical codec name (codecs.lookup) -> why the byte sum of
# the encoded text differs from the code point sum modulo 256 for some str
_ENC_WHY = {
    "utf-8": "UTF-8 writes every character from U+0080 on as two to four bytes (U+00E9 -> C3 A9, 195 + 169 = 364 = 108 mod 256, not 233)",
    "ascii": "ASCII has no byte for a character from U+0080 on (UnicodeEncodeError, or the character is dropped / substituted by the error handler)",
    "iso8859-1": "Latin-1 has no byte for a character from U+0100 on (UnicodeEncodeError, or the character is dropped / substituted by the error handler)",
    "utf-16": "UTF-16 writes a byte order mark (FF FE, 509 = 253 mod 256) and two bytes per character, whose sum is not the code point (U+0100 -> 00 01)",
    "utf-16-le": "UTF-16 writes two bytes per character, whose sum is not the code point (U+0100 -> 00 01: 1, not 256 = 0 mod 256)",
    "utf-16-be": "UTF-16 writes two bytes per character, whose sum is not the code point (U+0100 -> 01 00: 1, not 256 = 0 mod 256)",
    "utf-32": "UTF-32 writes a byte order mark (FF FE 00 00, 509 = 253 mod 256) and four bytes per character, whose sum is not the code point (U+0100)",
    "utf-32-le": "UTF-32 writes four bytes per character, whose sum is not the code point (U+0100 -> 00 01 00 00: 1, not 256 = 0 mod 256)",
    "utf-32-be": "UTF-32 writes four bytes per character, whose sum is not the code point (U+0100 -> 00 00 01 00: 1, not 256 = 0 mod 256)",
}


def _encoded_text(t):
    """`S.encode([encoding[, errors]])` / `bytes(S, encoding[, errors])` / `bytearray(S, encoding[, errors])` /
    `codecs.encode(S[, encoding[, errors]])`: the bytes of an encoding of the str S -> (S, encoding term or None for the
    default, which is UTF-8 in all four); None when `t` is not such a term."""
    if not isinstance(t, ast.Call) or any(isinstance(x, ast.Starred) for x in t.args) or any(k.arg is None for k in t.keywords):
        return None
    d = dotted(t.func)
    if isinstance(t.func, ast.Attribute) and t.func.attr == "encode" and d != "codecs.encode":
        b = _callargs(t, ["encoding", "errors"])
        return None if b is None else (t.func.value, b.get("encoding"))
    if d in ("bytes", "bytearray"):
        b = _callargs(t, ["source", "encoding", "errors"])
        return (b["source"], b["encoding"]) if b and "source" in b and "encoding" in b else None
    if d == "codecs.encode":
        b = _callargs(t, ["obj", "encoding", "errors"])
        return (b["obj"], b.get("encoding")) if b and "obj" in b else None
    return None


def _encoded_sum(e, p):
    """Is `e` the sum of the *bytes of an encoding* of (a term over) the text parameter p - `sum(S.encode(..))`, also through
    value-preserving views and an identity comprehension `(b for b in S.encode(..))`?  -> (codec name, reason why that is
    not the code point sum for every str (L31)), (codec text, None) for an encoding outside the table, None when `e` is not
    of this form.  The codec name is a constant of the analysed code, canonicalised with `codecs.lookup`; no text is encoded."""
    if not (isinstance(e, ast.Call) and dotted(e.func) == "sum" and len(e.args) == 1 and not e.keywords):
        return None
    a = e.args[0]
    for _ in range(4):
        enc = _encoded_text(a)
        if enc is not None:
            break
        if isinstance(a, (ast.GeneratorExp, ast.ListComp)) and len(a.generators) == 1 and not a.generators[0].ifs and isinstance(a.generators[0].target, ast.Name) \
                and _is_param(a.elt, a.generators[0].target.id):
            a = a.generators[0].iter
        elif isinstance(a, ast.Call) and dotted(a.func) in _VIEWS and len(a.args) == 1 and not a.keywords:
            a = a.args[0]
        else:
            return None
    else:
        return None
    S, name = enc
    if not _mentions(S, p):
        return None
    # S: the text itself, possibly with characters removed (`p.replace(c, "")`, `"".join(p.split(c))`) - what it keeps are
    # characters of the text, so a non-ASCII character of the text reaches the encoder
    T = S
    while True:
        if isinstance(T, ast.Call) and isinstance(T.func, ast.Attribute) and T.func.attr == "replace" and len(T.args) == 2 and not T.keywords and isinstance(_c(T.args[0]), str) and _c(T.args[1]) == "":
            T = T.func.value
        elif isinstance(T, ast.Call) and isinstance(T.func, ast.Attribute) and T.func.attr == "join" and _c(T.func.value) == "" and len(T.args) == 1 and not T.keywords \
                and isinstance(T.args[0], ast.Call) and isinstance(T.args[0].func, ast.Attribute) and T.args[0].func.attr == "split" and len(T.args[0].args) == 1 and isinstance(_c(T.args[0].args[0]), str):
            T = T.args[0].func.value
        else:
            break
    if not _is_param(T, p):
        return src(name)[:40] if name is not None else "utf-8", None
    if name is None:
        canon = "utf-8"
    else:
        v = _c(name)
        if not isinstance(v, str):
            return src(name)[:40], None
        try:
            canon = codecs.lookup(v).name
        except (LookupError, ValueError, TypeError):
            return repr(v), None
    return canon, _ENC_WHY.get(canon)


def _sum_loops(ex, e):
    """A copy of term `e` in which every loop-head symbol that is the accumulator of a summing for-loop
    (`acc = c; for v in IT: [if C(v):] acc += T(v)`, analysed once: the value at the end of an iteration is the head value
    plus a term of the loop variable, or the unchanged head value on the complementary branch of one test) is replaced
    by the equivalent `sum(T(v) for v in IT [if C(v)])` (`+ c` for a start value c != 0)."""

    def summed(name):
        nm, _, k = name.partition("@")
        lp = ex.loops.get(int(k)) if k.isdigit() else None
        if lp is None or not isinstance(lp.stmt, ast.For) or lp.exits or lp.stmt.orelse or not isinstance(lp.stmt.target, ast.Name) or not lp.iters:
            return None
        pre = lp.pre.get(nm)
        if not (isinstance(pre, ast.Constant) and type(pre.value) is int):
            return None
        var = lp.head.get(lp.stmt.target.id)
        head = SymPoly.atom(name)
        adds, skips = [], []
        for b in lp.iters:
            v = b.env.get(nm)
            extra = [(a, pol) for a, pol in b.conds[lp.nconds:]]
            if isinstance(v, ast.Name) and v.id == name:
                skips.append(extra)
                continue
            pv = _P(v) if v is not None else None
            if pv is None:
                return None
            term = pv - head
            if name in term.atoms() or len(term.terms) != 1:
                return None
            adds.append((extra, v))
        if len(adds) != 1:
            return None
        extra, v = adds[0]
        # the summand: v is `head + T` / `T + head` (one atom with coefficient 1 was checked above)
        if not (isinstance(v, ast.BinOp) and isinstance(v.op, ast.Add)):
            return None
        T = v.right if _is_param(v.left, name) else v.left if _is_param(v.right, name) else None
        if T is None or _mentions(T, name):
            return None
        ifs = []
        if not skips and not extra:
            pass
        elif len(skips) == 1 and len(extra) == 1 and len(skips[0]) == 1 and _k(skips[0][0][0]) == _k(extra[0][0]) and skips[0][0][1] != extra[0][1] and not _mentions(extra[0][0], name):
            a, pol = extra[0]
            ifs = [a if pol else ast.UnaryOp(op=ast.Not(), operand=a)]
        else:
            return None
        gen = ast.GeneratorExp(elt=T, generators=[ast.comprehension(target=ast.Name(id=var, ctx=ast.Store()), iter=lp.iter, ifs=ifs, is_async=0)])
        total = ast.Call(func=ast.Name(id="sum", ctx=ast.Load()), args=[gen], keywords=[])
        return total if pre.value == 0 else ast.BinOp(left=total, op=ast.Add(), right=ast.Constant(value=pre.value))  # the start value

    class R(ast.NodeTransformer):
        def visit_Name(self, n):
            if "@" in n.id and isinstance(n.ctx, ast.Load):
                r = summed(n.id)
                if r is not None:
                    return copy.deepcopy(r)
            return n

    return R().visit(copy.deepcopy(e))


# ---- the x64 URI pattern, judged on its parse tree (device 6; nothing is compiled for matching, no string is matched)
_ALNUM_RANGES = [(48, 57), (65, 90), (97, 122)]  # the table [0-9A-Za-z] as code point ranges


def _class_ranges(items, flags):
    """Character set of one pattern position (`items`: a LITERAL / IN item list of the parse tree) as
    (code point interval set, matches-non-ASCII?, explanation) or None when the class uses a construct not modelled."""
    from re import _constants as C

    ascii_only = bool(flags & re.ASCII)
    ivs, extra = [], None
    for op, av in items:
        if op is C.LITERAL:
            ivs.append((av, av))
        elif op is C.RANGE:
            ivs.append(av)
        elif op is C.CATEGORY and av is C.CATEGORY_DIGIT:
            ivs.append((48, 57))
            if not ascii_only:
                extra = "\\d matches non-ASCII digits without re.ASCII (L13)"
        elif op is C.CATEGORY and av is C.CATEGORY_WORD:
            ivs += _ALNUM_RANGES + [(95, 95)]
            if not ascii_only:
                extra = "\\w matches non-ASCII word characters without re.ASCII (L13)"
        else:
            return None  # negated classes, other categories
    ivs = _iv_norm(ivs)
    if flags & re.IGNORECASE:
        lower, upper = _iv_and(ivs, [(97, 122)]), _iv_and(ivs, [(65, 90)])
        ivs = _iv_or(ivs, [(lo - 32, hi - 32) for lo, hi in lower] + [(lo + 32, hi + 32) for lo, hi in upper])
        if not ascii_only and _iv_and(ivs, [(ord(ch), ord(ch)) for ch in "iksIKS"]):
            extra = extra or "with re.IGNORECASE and without re.ASCII the letters i, k, s also match non-ASCII characters (L14)"
    return ivs, extra


def _x64_language_ok(kind, pattern, flags=0):
    """Does the regular expression, used with re.<kind>, accept exactly '/' + four ASCII alphanumerics?  Decided on the
    parse tree: anchoring per L12, exactly five one-character positions, the first the literal '/', the others a class
    equal to the table [0-9A-Za-z].  -> (True | False | None, explanation)"""
    from re import _constants as C
    from re import _parser

    if not isinstance(pattern, str):
        return None, "pattern is not a str constant"
    try:
        tree = _parser.parse(pattern, flags)
    except (re.error, TypeError, ValueError, RecursionError, OverflowError):
        return False, "pattern does not parse"
    flags = tree.state.flags
    if flags & (re.LOCALE | re.DEBUG):
        return None, "locale-dependent pattern"
    items = list(tree)

    def anchor(it, begin):
        if it[0] is not C.AT:
            return None
        if begin:
            return "string" if it[1] is C.AT_BEGINNING_STRING or (it[1] is C.AT_BEGINNING and not flags & re.MULTILINE) else "line" if it[1] is C.AT_BEGINNING else None
        return "string" if it[1] is C.AT_END_STRING or (it[1] is C.AT_END and not flags & re.MULTILINE) else "line" if it[1] is C.AT_END else None

    begin = end = None
    if items and anchor(items[0], True):
        begin, items = anchor(items[0], True), items[1:]
    if items and anchor(items[-1], False):
        end, items = anchor(items[-1], False), items[:-1]
    # positions
    pos, variable = [], None

    def flatten(seq):
        nonlocal variable
        for op, av in seq:
            if op is C.LITERAL:
                pos.append([(op, av)])
            elif op is C.IN:
                pos.append(list(av))
            elif op is C.ANY:
                pos.append("any")
            elif op in (C.MAX_REPEAT, C.MIN_REPEAT, getattr(C, "POSSESSIVE_REPEAT", None)):
                lo, hi, sub = av
                sub = list(sub)
                if lo != hi:
                    variable = f"a repeat of {lo} to {'any number' if hi is C.MAXREPEAT else hi} characters"
                    hi = lo
                if lo > 16:
                    return False
                mark = len(pos)
                if not flatten(sub) or len(pos) - mark != 1:
                    return False
                pos.extend([pos[-1]] * (lo - 1))
                if lo == 0:
                    pos.pop()
            elif op is C.SUBPATTERN and not av[1] and not av[2]:
                if not flatten(list(av[3])):
                    return False
            else:
                return False
        return True

    if not flatten(items):
        return None, "pattern structure outside the modelled subset (single characters, classes, counted repeats, plain groups)"
    if (begin == "line" and kind == "search") or (end == "line" and kind != "fullmatch"):
        return False, "with re.MULTILINE `^`/`$` are line anchors: multi-line URIs are accepted (L12)"
    if kind == "search" and begin != "string":
        return False, "re.search with a pattern that is not anchored at the start of the string accepts longer URIs (L12)"
    if kind in ("match", "search") and end != "string":
        return False, "the pattern is not anchored at the end of the string: longer URIs are accepted (L12)"
    if variable:
        return False, f"the pattern contains {variable}: URIs of different lengths are accepted"
    if len(pos) != 5:
        return False, f"the pattern matches {len(pos)} characters, required '/' + 4"
    for i, p in enumerate(pos):
        if p == "any":
            return False, f"position {i} accepts any character"
        r = _class_ranges(p, flags)
        if r is None:
            return None, f"character class at position {i} uses a construct the rule does not model"
        ivs, extra = r
        want = [(47, 47)] if i == 0 else _ALNUM_RANGES
        if ivs != want or (extra and i > 0):
            return False, f"position {i} accepts {_iv_text(ivs)}" + (f"; {extra}" if extra else "") + f", required {_iv_text(want)} (code points)"
    return True, ""


def _whole_string(kind, pattern, flags=0):
    """Does a successful re.<kind>(pattern, s) constrain the WHOLE subject string s - does the pattern consume s from
    its first to its last character (L28)?  Decided on the call kind and the parse tree only; no string is matched.
    -> (True | False | None, explanation).
    True needs nothing but the anchors: fullmatch; or the LAST item of the top-level sequence is `\\Z` (every match ends
    by passing it, at len(s)) and the match starts at 0 (re.match, or a FIRST item `\\A` / `^` without re.MULTILINE).
    False is only claimed for patterns of the backtracking-only subset (characters, classes, greedy / lazy repeats, plain
    groups, alternation): there a way the pattern matches w is also a way it matches w + x up to the end anchor, so a
    missing / weak end anchor (start anchor under re.search) admits the strings L28 lists.  Look-around, conditionals,
    back references, atomic / possessive constructs, scoped flags or an anchor that is neither first nor last: None."""
    from re import _constants as C
    from re import _parser

    if kind == "fullmatch":
        return True, "re.fullmatch succeeds only when the pattern consumes the whole string"
    if not isinstance(pattern, str):
        return None, "pattern is not a str constant"
    try:
        tree = _parser.parse(pattern, flags)
    except (re.error, TypeError, ValueError, RecursionError, OverflowError):
        return None, "pattern does not parse"
    multi = bool(tree.state.flags & re.MULTILINE)
    top = list(tree)
    repeats = tuple(x for x in (C.MAX_REPEAT, C.MIN_REPEAT) if x is not None)
    consuming = (C.LITERAL, C.NOT_LITERAL, C.IN, C.ANY)

    def walk(seq):
        """(number of anchors / zero-width assertions, all items within the backtracking-only subset?) of a sequence"""
        n, plain = 0, True
        for op, av in seq:
            if op is C.AT:
                n += 1
            elif op in consuming:
                pass
            elif op in repeats:
                n2, p2 = walk(list(av[2]))
                n, plain = n + n2, plain and p2
            elif op is C.SUBPATTERN:
                n2, p2 = walk(list(av[3]))
                n, plain = n + n2, plain and p2 and not av[1] and not av[2]
            elif op is C.BRANCH:
                for alt in av[1]:
                    n2, p2 = walk(list(alt))
                    n, plain = n + n2, plain and p2
            else:
                plain = False
        return n, plain

    def edge(seq, last):
        """(strength of the anchoring at the end (`last`) / start of the sequence, anchors relied on): "string" the very
        end / start of the subject, "newline" `$`: the end or just before one final newline, "line" any line end / start,
        "none" the sequence ends / starts with a character position, "unknown" anything else."""
        if not seq:
            return "none", 0
        op, av = seq[-1 if last else 0]
        if op is C.AT:
            if av is (C.AT_END_STRING if last else C.AT_BEGINNING_STRING):
                return "string", 1
            if av is (C.AT_END if last else C.AT_BEGINNING):
                return ("line" if multi else "newline" if last else "string"), 1
            return "unknown", 0
        if op in consuming:
            return "none", 0
        if op in repeats:
            return ("none" if walk(list(av[2])) == (0, True) else "unknown"), 0
        if op is C.SUBPATTERN and not av[1] and not av[2]:
            return edge(list(av[3]), last)
        if op is C.BRANCH:
            got = [edge(list(alt), last) for alt in av[1]]
            kinds = {k for k, _n in got}
            return (kinds.pop() if len(kinds) == 1 else "unknown"), sum(n for _k, n in got)
        return "unknown", 0

    end, n_end = edge(top, True)
    start, n_start = edge(top, False)
    if kind == "match":  # the match starts at position 0; a leading `^` / `\A` is redundant there (true at 0 in every mode)
        start, n_start = "string", (n_start if start in ("string", "line") else 0)
    if end == "string" and start == "string":
        return True, ("re.match starts at the first character" if kind == "match" else "the pattern is anchored at the start of the string") + " and the pattern's last item is `\\Z`, the end of the string"
    n_all, plain = walk(top)
    if not plain or n_all != n_end + n_start or "unknown" in (start, end):
        return None, "anchoring outside the modelled forms (look-around, conditional, back reference, atomic / possessive construct, scoped flags, or an anchor that is not the first / last item of the pattern)"
    if start == "none":
        return False, "re.search with a pattern that is not anchored at the start: any text in front of a match is accepted"
    if start == "line":
        return False, "with re.MULTILINE `^` also matches after every newline: any text + '\\n' in front of a match is accepted"
    if end == "newline":
        return False, "`$` also matches just before a final newline: whenever w is accepted, so is w + '\\n' (one character more; the newline counts towards checksum8)"
    if end == "line":
        return False, "with re.MULTILINE `$` matches before every newline: whenever w is accepted, so is w + '\\n' + any text"
    return False, "the pattern has no end anchor: whenever w is accepted, so is w + any text"


def _re_flags(node):
    """Constant value of a `flags` argument (re.I | re.A ...), 0 when absent, None when not constant."""
    if node is None:
        return 0
    binds, env = {}, {}
    for n in ast.walk(node):
        d = dotted(n)
        if d and d.startswith("re.") and isinstance(getattr(re, d[3:], None), re.RegexFlag):
            binds[d] = "$" + d.replace(".", "_")
            env[binds[d]] = int(getattr(re, d[3:]))
    try:
        v = _fold(_abstract(node, binds), env)
    except _NoEval:
        return None
    return int(v) if isinstance(v, int) else None


def _regex_calls(ctx, f, e, p):
    """Regex membership tests of parameter p inside term e: [(call node, kind, pattern, flags)] (pattern None = unknown)."""
    out = []
    mod = f.module
    for n in ast.walk(e):
        if not (isinstance(n, ast.Call) and isinstance(n.func, ast.Attribute) and n.func.attr in ("match", "fullmatch", "search")):
            continue
        recv = n.func.value
        if dotted(recv) == "re":
            b = _callargs(n, ["pattern", "string", "flags"])
            if b is None or "string" not in b or not _is_param(b["string"], p):
                continue
            out.append((n, n.func.attr, _c(b.get("pattern")), _re_flags(b.get("flags"))))
        else:
            comp = recv
            if isinstance(recv, ast.Name) and recv.id in mod.consts:
                comp = mod.consts[recv.id]
            if isinstance(comp, ast.Call) and dotted(comp.func) == "re.compile":
                b = _callargs(comp, ["pattern", "flags"])
                b2 = _callargs(n, ["string"])
                if b is None or b2 is None or not _is_param(b2.get("string"), p):
                    continue
                out.append((n, n.func.attr, _c(b.get("pattern")), _re_flags(b.get("flags"))))
    return out


def _shape_atom(a, u):
    """A test of the shape of the URI parameter u that does not use a regular expression -> "len5" | "slash" | "alnum" |
    "ascii" | "other" (a recognised string predicate that is none of the four) | None (not a recognised shape test)."""
    t = _int_test(a)
    if t is not None and t[0] == f"len({u})":
        return "len5" if (t[1], t[2]) == (ast.Eq, 5) else "other"

    def tail(x):  # u[1:] / u[1:5]
        return isinstance(x, ast.Subscript) and _is_param(x.value, u) and isinstance(x.slice, ast.Slice) and _c(x.slice.lower) == 1 and (x.slice.upper is None or _c(x.slice.upper) == 5) and x.slice.step is None

    if isinstance(a, ast.Call) and isinstance(a.func, ast.Attribute) and not a.keywords:
        recv, m = a.func.value, a.func.attr
        if m == "startswith" and _is_param(recv, u) and len(a.args) == 1:
            return "slash" if _c(a.args[0]) == "/" else "other"
        if m == "isalnum" and not a.args:
            return "alnum" if tail(recv) else "other" if _mentions(recv, u) else None
        if m == "isascii" and not a.args:
            return "ascii" if tail(recv) or _is_param(recv, u) else "other" if _mentions(recv, u) else None
        return None
    if isinstance(a, ast.Compare) and len(a.ops) == 1 and isinstance(a.ops[0], ast.Eq):
        l, r = a.left, a.comparators[0]
        if isinstance(l, ast.Constant):
            l, r = r, l
        if _c(r) == "/" and isinstance(l, ast.Subscript) and _is_param(l.value, u):
            sl = l.slice
            if (not isinstance(sl, ast.Slice) and _c(sl) == 0) or (isinstance(sl, ast.Slice) and sl.lower is None and _c(sl.upper) == 1 and sl.step is None):
                return "slash"
    return None


_C8_DOM = (0, 255)  # L11


def r3(ctx):
    # ---- checksum8: 0 below four characters, else the code point sum without '/' modulo 256
    c8 = ctx.repo.func("utils.checksum8")
    p = params(c8.node)[0]
    ex, states = _try_paths(ctx, "R3", "TABLE", c8, "checksum8")
    if states is not None:
        bad, undec = [], []
        rets = [s for s in states if s.end[0] == "return" and s.end[1] is not None]
        if any(s.end[0] == "fall" or (s.end[0] == "return" and s.end[1] is None) for s in states):
            bad.append("a path returns no value")
        lenatom = f"len({p})"
        dom = (0, _INF)
        zero, formula, covered = [], [], []  # interval sets of text lengths
        for s in rets:
            lens = [dom]
            for a, pol in s.conds:
                t = _atom_set(a, lenatom, dom)
                if t is None:
                    if _mentions(a, p):
                        # a length test on something derived from the text is a different function
                        derived = [n for n in ast.walk(a) if isinstance(n, ast.Call) and dotted(n.func) == "len" and n.args and not _is_param(n.args[0], p) and _mentions(n.args[0], p)]
                        (bad if derived else undec).append(f"path condition `{src(a)[:80]}`" + (" measures a transformed text" if derived else " is not an interval test of the text length"))
                    continue
                lens = _iv_and(lens, t if pol else _iv_not(t, dom))
            if not lens:
                continue  # infeasible path
            covered = _iv_or(covered, lens)
            v = _sum_loops(ex, s.end[1])
            short, long_ = _iv_and(lens, [(0, 3)]), _iv_and(lens, [(4, _INF)])
            if isinstance(v, ast.Constant):
                if v.value == 0 and not isinstance(v.value, bool):
                    zero = _iv_or(zero, lens)
                    if long_:
                        bad.append(f"a text of {long_[0][0]} characters yields the constant 0")
                else:
                    bad.append(f"a text of {lens[0][0]} characters yields {v.value!r}" + (", required 0" if short else " (a constant)"))
                continue
            formula = _iv_or(formula, lens)
            if short:
                # the general formula also applies to short texts
                bad.append(f"a text of {short[0][0]} characters does not yield 0 but `{src(v)[:60]}`")
            if isinstance(v, ast.BinOp) and isinstance(v.op, (ast.Mod, ast.BitAnd)):
                m = _c(v.right)
                total, shift = v.left, 0
                if isinstance(total, ast.BinOp) and isinstance(total.op, ast.Add) and type(_c(total.right)) is int:
                    total, shift = total.left, _c(total.right)  # a constant added to the sum (e.g. the start value of a summing loop)
                elif isinstance(total, ast.BinOp) and isinstance(total.op, ast.Add) and type(_c(total.left)) is int:
                    total, shift = total.right, _c(total.left)
                cs = _codepoint_sum(total, p)
                good_m = (m == 256) if isinstance(v.op, ast.Mod) else (m == 255)  # L11
                es = _encoded_sum(total, p) if cs is None else None
                if es is not None and isinstance(m, int):
                    # the summed items are located: the bytes of an encoding of the text instead of its code points.  The two
                    # agree on ASCII text only, so a path the conditions restrict by something other than the length stays open
                    if es[1] is None or any(_mentions(a, p) and _atom_set(a, lenatom, dom) is None for a, _pol in s.conds):
                        undec.append(f"checksum expression `{src(v)[:100]}` sums the bytes of the {es[0]} encoding of the text; not decided for this encoding / under the path conditions")
                    else:
                        bad.append(f"a text of {lens[0][0]} characters yields `{src(v)[:100]}`: the sum of the bytes of the {es[0]} encoding of the text, not of its code points - {es[1]}; the two agree for ASCII text only (L31)")
                elif cs is None or not isinstance(m, int):
                    undec.append(f"checksum expression `{src(v)[:100]}` not recognised as a code point sum")
                elif shift % 256:
                    bad.append(f"a text of {lens[0][0]} characters yields `{src(v)[:100]}`: the code point sum is shifted by the constant {shift}")
                elif not (cs and good_m):
                    bad.append(f"a text of {lens[0][0]} characters yields `{src(v)[:100]}`: sum of the code points without '/'={cs}, reduced modulo 256={good_m}")
            elif _codepoint_sum(v, p) is not None:
                bad.append(f"the code point sum `{src(v)[:80]}` is not reduced modulo 256")
            else:
                undec.append(f"checksum expression `{src(v)[:100]}` not recognised")
        if not undec and covered != [dom]:
            missing = _iv_not(covered, dom)
            bad.append(f"no returning path for a text of {missing[0][0]} characters")
        if bad:
            ctx.ob("R3", "TABLE", c8, "checksum8", False, "; ".join(dict.fromkeys(bad))[:400])
        elif undec:
            ctx.undecided("R3", "TABLE", c8, "checksum8", "; ".join(dict.fromkeys(undec))[:400])
        else:
            ctx.ob("R3", "TABLE", c8, "checksum8", True, f"0 on exactly the text lengths {_iv_text(zero)}; on {_iv_text(formula)} the sum of the code points of the text without '/' modulo 256 (interval sets from the path conditions)")

    # ---- classifiers
    for name, const, text in (("is_stager_x86", 92, "x86 <=> checksum8 == 92"), ("is_stager_x64", 93, "x64 <=> checksum8 == 93 and /[A-Za-z0-9]{4}")):
        g = ctx.repo.func("utils." + name)
        u = params(g.node)[0]
        ex, states = _try_paths(ctx, "R3", "TABLE", g, text)
        if states is None:
            continue
        rets = [s for s in states if s.end[0] == "return" and s.end[1] is not None]
        if len(rets) != len(states) or not rets:
            ctx.ob("R3", "TABLE", g, text, False, "a path of the classifier returns no value")
            continue
        bad, undec = [], []
        # atoms: the checksum of the URI and (x64) the regex verdict
        binds = {}
        rx_ok, rx_why, rx_seen = True, "", 0
        whole, foreign = {}, {}  # the whole-URI verdict per located regex test; regex-like tests of the URI whose pattern is out of sight
        for s in rets:
            for e in [a for a, _p in s.conds] + [s.end[1]]:
                for c in _calls_to(ctx, g, e, "utils.checksum8"):
                    if len(c.args) == 1 and not c.keywords and _is_param(c.args[0], u):
                        binds[src(c)] = "$c8"
                    else:
                        bad.append(f"checksum8 applied to `{src(c.args[0]) if c.args else ''}` instead of the URI")
                located = _regex_calls(ctx, g, e, u)
                for n in ast.walk(e):
                    if (isinstance(n, ast.Call) and isinstance(n.func, ast.Attribute) and n.func.attr in ("match", "fullmatch", "search") and all(n is not c for c, _k2, _p2, _f2 in located)
                            and any(_mentions(x, u) for x in list(n.args) + [kw.value for kw in n.keywords])):
                        foreign[src(n)] = n
                for c, kind, pat, fl in located:
                    binds[src(c)] = "$rx"
                    rx_seen += 1
                    if kind == "fullmatch" or (pat is not None and fl is not None):
                        whole[(kind, pat, fl)] = _whole_string(kind, pat, fl or 0)
                    else:
                        whole[(kind, pat, fl)] = (None, "regular expression / flags not constant")
                    if pat is None or fl is None:
                        undec.append("regular expression / flags not constant")
                        continue
                    ok, why = _x64_language_ok(kind, pat, fl)
                    if ok is None:
                        undec.append(f"re.{kind}({pat!r}): {why}")
                    elif not ok:
                        rx_ok, rx_why = False, f"re.{kind}({pat!r}): {why}"
        need_rx = name == "is_stager_x64"
        if need_rx and rx_seen and not rx_ok:
            bad.append(f"the pattern does not accept exactly '/' + four ASCII alphanumerics ({rx_why})")
        # true-alternatives of the classifier: path conditions + the short-circuit alternatives of the returned value;
        # each is a conjunction of atoms: an interval set for the checksum, the regex verdict, URI shape tests
        alts = []
        for s in rets:
            for c2, o2 in ex.split(s.end[1]):
                st = _St(conds=list(s.conds))
                if o2 and st.add(c2):
                    alts.append(st.conds)
        regions = []  # (checksum interval set, rx True/False/None, positive shape atoms)
        for conds in alts:
            cs, rx, shape, dead = [_C8_DOM], None, set(), False
            for a, pol in conds:
                a2 = _abstract(a, binds)
                r = None
                if isinstance(a2, ast.Name) and a2.id == "$rx":
                    r = pol
                elif isinstance(a2, ast.Compare) and len(a2.ops) == 1 and isinstance(a2.left, ast.Name) and a2.left.id == "$rx" and isinstance(a2.comparators[0], ast.Constant) and a2.comparators[0].value is None:
                    if isinstance(a2.ops[0], (ast.Is, ast.Eq)):
                        r = not pol
                    elif isinstance(a2.ops[0], (ast.IsNot, ast.NotEq)):
                        r = pol
                if r is not None:
                    if rx is not None and rx != r:
                        dead = True
                    rx = r
                    continue
                t = _atom_set(a2, "$c8", _C8_DOM)
                if t is not None:
                    cs = _iv_and(cs, t if pol else _iv_not(t, _C8_DOM))
                    continue
                sh = _shape_atom(a, u)
                if sh is not None and pol:
                    shape.add(sh)
                elif sh is not None or _mentions(a, u) or _names(a2) & {"$c8", "$rx"}:
                    undec.append(f"condition `{('' if pol else 'not ') + src(a)[:80]}` of the classifier value is outside the recognised forms")
            if not dead and cs:
                regions.append((cs, rx, shape))

        def union(pred):
            out = []
            for cs, rx, shape in regions:
                if pred(rx, shape):
                    out = _iv_or(out, cs)
            return out

        want = [(const, const)]
        if not need_rx:
            if any(rx is not None or shape for _cs, rx, shape in regions):
                undec.append("the x86 classifier also tests the shape of the URI")
            got = union(lambda rx, shape: True)
            if got != want:
                bad.append(f"the classifier is true for checksum8 in {_iv_text(got)}, required exactly {const}")
        elif rx_seen:
            with_rx, without_rx = union(lambda rx, shape: rx is not False), union(lambda rx, shape: rx is not True)
            if with_rx != want:
                bad.append(f"with a matching pattern the classifier is true for checksum8 in {_iv_text(with_rx)}, required exactly {const}")
            if without_rx:
                bad.append(f"the classifier is true for checksum8 in {_iv_text(without_rx)} although the pattern does not match")
        else:
            # no regular expression: the URI shape must be established by string predicates (L15)
            need = {"len5", "slash", "alnum", "ascii"}
            loose = [shape for _cs, _rx, shape in regions if not need <= shape]
            got = union(lambda rx, shape: True)
            if loose and not undec:
                bad.append(f"no regular expression and the shape tests {sorted(loose[0])} do not establish '/' + four ASCII alphanumerics (missing {sorted(need - loose[0])}; L15)")
            if got != want:
                bad.append(f"the classifier is true for checksum8 in {_iv_text(got)}, required exactly {const}")
        if bad:
            ctx.ob("R3", "TABLE", g, text, False, "; ".join(dict.fromkeys(bad))[:400])
        elif undec:
            ctx.undecided("R3", "TABLE", g, text, "; ".join(dict.fromkeys(undec))[:400])
        else:
            ctx.ob("R3", "TABLE", g, text, True, f"true exactly when checksum8(uri) == {const}" + (" and the URI is '/' + four ASCII alphanumerics (pattern parse tree: anchors, five positions, class table)" if need_rx and rx_seen else " and the URI is '/' + four ASCII alphanumerics (string predicates)" if need_rx else "") + " (interval sets over the checksum range [0, 255])")
        if not need_rx:
            continue
        # ---- "exactly when ... four alphanumerics after the slash", over ALL URI strings: the shape test has to constrain the
        # whole string, not a prefix / a line / all but a final newline of it (L28; call kind + anchors of the parse tree)
        WHOLE = "shape test covers the whole URI"

        def shown(key):
            kind, pat, _fl = key
            return f"re.{kind}({pat!r})" if pat is not None else f"<pattern>.{kind}(..)"

        wrong = [(k, v) for k, v in whole.items() if v[0] is False]
        open_ = [(k, v) for k, v in whole.items() if v[0] is None]
        if wrong:
            ctx.ob("R3", "TABLE", g, WHOLE, False, "; ".join(f"{shown(k)}: {v[1]}" for k, v in wrong)[:400] + " - such a URI is not '/' + four alphanumerics, yet it is classified as an x64 stager whenever its checksum8 is 93 (L28)")
        elif open_ or foreign:
            why = [f"{shown(k)}: {v[1]}" for k, v in open_] + [f"`{t[:60]}`: a regex test of the URI the rule cannot resolve (pattern object that is not a module-level constant re.compile(..), or a transformed subject)" for t in foreign]
            ctx.undecided("R3", "TABLE", g, WHOLE, "; ".join(why)[:400])
        elif whole:
            ctx.ob("R3", "TABLE", g, WHOLE, True, "; ".join(f"{shown(k)}: {v[1]}" for k, v in whole.items())[:400])
        else:
            shapes = [shape for _cs, _rx, shape in regions]
            if shapes and all({"len5", "slash", "alnum"} <= sh for sh in shapes):
                ctx.ob("R3", "TABLE", g, WHOLE, True, "no regular expression: `len(uri) == 5` fixes the number of positions, startswith('/') constrains the first and isalnum() of uri[1:] every other one (whether isalnum() is narrow enough is judged by the obligation above, L15)")
            else:
                ctx.undecided("R3", "TABLE", g, WHOLE, "no regular expression test of the URI found and the string predicates on the classifier's true-alternatives are not the recognised len(uri) == 5 / startswith('/') / uri[1:].isalnum() combination")


# ===================================================================================================== R4 random_stager_uri
_STRING_CONSTS = {
    "string.ascii_letters": "abcdefghijklmnopqrstuvwxyzABCDEFGHIJKLMNOPQRSTUVWXYZ", "string.ascii_lowercase": "abcdefghijklmnopqrstuvwxyz",
    "string.ascii_uppercase": "ABCDEFGHIJKLMNOPQRSTUVWXYZ", "string.digits": "0123456789", "string.hexdigits": "0123456789abcdefABCDEF",
    "string.octdigits": "01234567", "string.punctuation": "!\"#$%&'()*+,-./:;<=>?@[\\]^_`{|}~", "string.whitespace": " \t\n\r\x0b\x0c",
}
_STRING_CONSTS["string.printable"] = _STRING_CONSTS["string.digits"] + _STRING_CONSTS["string.ascii_letters"] + _STRING_CONSTS["string.punctuation"] + _STRING_CONSTS["string.whitespace"]
_ALNUM = set(_STRING_CONSTS["string.ascii_letters"] + _STRING_CONSTS["string.digits"])


def _alphabet(e, mod=None, depth=0):
    """Characters of an alphabet expression (string module constants, literals, concatenation, module-level constants of
    the analysed module) or None."""
    if mod is not None and depth < 4:
        class C(ast.NodeTransformer):
            stack = []

            def visit_Name(self, n):
                if isinstance(n.ctx, ast.Load) and n.id in mod.consts and n.id not in self.stack and len(self.stack) < 4:
                    self.stack.append(n.id)
                    r = self.visit(copy.deepcopy(mod.consts[n.id]))
                    self.stack.pop()
                    return r
                return n

        e = C().visit(copy.deepcopy(e))
    binds = {}
    for n in ast.walk(e):
        d = dotted(n)
        if d in _STRING_CONSTS:
            binds[d] = "$" + d.replace(".", "_")
        elif d is not None and "string." + d in _STRING_CONSTS and isinstance(n, ast.Name):
            binds[d] = "$string_" + d
    env = {v: _STRING_CONSTS["string." + v[len("$string_"):]] for v in binds.values()}
    try:
        v = _fold(_abstract(e, binds), env)  # constant folding over the `string` module's reference constants
    except _NoEval:
        return None
    if isinstance(v, (str, list, tuple, set)) and all(isinstance(c, str) and len(c) == 1 for c in v):
        return set(v)
    return None


def _candidate_shape(v, length, mod=None):
    """`'/' + ''.join(random.choice(A) for _ in range(length))` and equivalents -> (prefix ok, count ok, alphabet set|None)
    or None when the term has another shape."""
    parts = []
    if isinstance(v, ast.BinOp) and isinstance(v.op, ast.Add):
        parts = [v.left, v.right]
    elif isinstance(v, ast.JoinedStr) and len(v.values) == 2 and isinstance(v.values[1], ast.FormattedValue) and v.values[1].conversion == -1 and v.values[1].format_spec is None:
        parts = [v.values[0], v.values[1].value]
    if len(parts) != 2:
        return None
    prefix = _c(parts[0])
    body = parts[1]
    if not (isinstance(body, ast.Call) and isinstance(body.func, ast.Attribute) and body.func.attr == "join" and _c(body.func.value) == "" and len(body.args) == 1):
        return None
    a = body.args[0]
    alpha = count = None
    if isinstance(a, (ast.GeneratorExp, ast.ListComp)) and len(a.generators) == 1 and not a.generators[0].ifs:
        g = a.generators[0]
        e = a.elt
        if isinstance(e, ast.Call) and dotted(e.func) in ("random.choice", "choice", "secrets.choice", "random.SystemRandom().choice") and len(e.args) == 1 and not (_names(e.args[0]) & set(_target_names(g.target))):
            alpha = e.args[0]
            # number of draws = len(range(a, b)) = b - a in normal form (L16)
            it = g.iter
            if isinstance(it, ast.Call) and dotted(it.func) == "range" and not it.keywords and 1 <= len(it.args) <= 3 and (len(it.args) < 3 or _c(it.args[2]) == 1):
                lo, hi = (_P(it.args[0]), _P(it.args[1])) if len(it.args) >= 2 else (SymPoly.const(0), _P(it.args[0]))
                count = None if lo is None or hi is None else hi - lo
    elif isinstance(a, ast.Call) and dotted(a.func) in ("random.choices", "choices") and a.args:
        b = _callargs(a, ["population", "weights", "cum_weights", "k"])
        if b is not None and "weights" not in b and "cum_weights" not in b:
            alpha, count = b["population"], _P(b.get("k", ast.Constant(value=1)))
    elif isinstance(a, ast.Call) and dotted(a.func) in ("random.sample", "sample"):
        return ("/" == prefix, False, None, "random.sample draws without replacement")
    if alpha is None or count is None or not count.atoms() <= {length}:
        return None
    return (prefix == "/", count == SymPoly.atom(length), _alphabet(alpha, mod), src(alpha))


def _filtered_next(v):
    """`next(u for u in it if C(u))` / `next(filter(C, it))` -> the callee expression C, else None."""
    if not (isinstance(v, ast.Call) and dotted(v.func) == "next" and len(v.args) == 1 and not v.keywords):
        return None
    g = v.args[0]
    if isinstance(g, ast.GeneratorExp) and len(g.generators) == 1 and isinstance(g.generators[0].target, ast.Name) and _is_param(g.elt, g.generators[0].target.id):
        var = g.generators[0].target.id
        for c in g.generators[0].ifs:
            if isinstance(c, ast.Call) and len(c.args) == 1 and not c.keywords and _is_param(c.args[0], var):
                return c.func
        return None
    if isinstance(g, ast.Call) and dotted(g.func) == "filter" and len(g.args) == 2:
        return g.args[0]
    return None


def r4(ctx):
    f = ctx.repo.func("utils.random_stager_uri")
    ps = params(f.node)
    if "x64" not in ps or "length" not in ps:
        ctx.undecided("R4", "AGREE", f, "return <uri>", f"the generator no longer has the keyword parameters x64 and length: {ps}")
        return
    want = {True: "utils.is_stager_x64", False: "utils.is_stager_x86"}
    cls = set(want.values())
    sel_bad, dom_bad, dom_und, pre_bad, pre_und, shape = [], [], [], [], [], {}
    nret = 0
    for x64 in (True, False):
        ex, states = _try_paths(ctx, "R4", "DOM", f, "return <uri>", preset={"x64": ast.Constant(value=x64)}, resolver=_helper_resolver(ctx, f, cls | {"utils.checksum8"}))
        if states is None:
            return
        rets = [s for s in states if s.end[0] == "return"]
        if any(s.end[0] == "fall" for s in states):
            dom_bad.append(f"x64={x64}: a path leaves the generator without returning a URI")
        for s in rets:
            nret += 1
            v = s.end[1]
            if v is None:
                dom_bad.append(f"x64={x64}: a path returns no URI")
                continue
            # `return random_stager_uri(x64=.., length=..)` (retry by recursion): covered by induction when x64 is passed on
            if isinstance(v, ast.Call) and dotted(v.func) == f.qualname and not v.args:
                kw = {k.arg: k.value for k in v.keywords}
                if isinstance(kw.get("x64"), ast.Constant) and kw["x64"].value is x64:
                    nret -= 1
                    continue
            # `return next(u for u in <candidates> if is_stager(u))` / `next(filter(is_stager, <candidates>))`
            fn_ = _filtered_next(v)
            if fn_ is not None:
                d = dotted(fn_)
                sym = ctx.rs.lookup_dotted(f.module.name, d) if d else None
                fq = sym.fq if sym is not None and sym.kind in ("func", "partial") else None
                if fq == want[x64]:
                    continue
                if fq in cls:
                    sel_bad.append(f"x64={x64}: the returned URI passed {fq} instead of {want[x64]}")
                    continue
            kv = _k(v)
            tests = []  # (resolved classifier fq, polarity, same value?)
            opaque = []
            for a, pol in s.conds:
                fq = None
                if isinstance(a, ast.Call):
                    d = dotted(a.func)
                    sym = ctx.rs.lookup_dotted(f.module.name, d) if d else None
                    fq = sym.fq if sym is not None and sym.kind in ("func", "partial") else None
                if fq in cls and len(a.args) == 1 and not a.keywords:
                    tests.append((fq, pol, _k(a.args[0]) == kv))
                elif (any(_k(n) == kv for n in ast.walk(a)) or (isinstance(v, ast.Name) and _mentions(a, v.id))) and _could_classify(a):
                    opaque.append(a)
            pos = [t for t in tests if t[1] and t[2]]
            if any(t[0] == want[x64] for t in pos):
                pass
            elif pos:
                sel_bad.append(f"x64={x64}: the returned URI passed {pos[0][0]} instead of {want[x64]}")
            elif any(t[0] == want[x64] and not t[1] and t[2] for t in tests):
                dom_bad.append(f"x64={x64}: a URI that FAILED {want[x64]} is returned (path: {_cond_text(s.conds)[-3:]})")
            elif any(t[1] and not t[2] for t in tests):
                dom_bad.append(f"x64={x64}: the classifier was applied to another value than the one returned (`{src(v)[:60]}`)")
            elif opaque:
                dom_und.append(f"x64={x64}: the returned URI is guarded by `{src(opaque[0])[:80]}`, which is not a direct classifier call")
            elif not tests and any(dotted(n) is not None and "@" not in dotted(n) and getattr(ctx.rs.lookup_dotted(f.module.name, dotted(n)), "fq", None) == want[x64] for n in ast.walk(v) if isinstance(n, (ast.Name, ast.Attribute))):
                dom_und.append(f"x64={x64}: the returned expression `{src(v)[:80]}` uses the classifier in a way the rule does not model")
            else:
                dom_bad.append(f"x64={x64}: `{src(v)[:60]}` is returned without passing {want[x64]} (path: {_cond_text(s.conds)[-3:]})")
            # admitted lengths on this path: interval set from the path conditions that test `length` alone
            dom = (-_INF, _INF)
            admitted = [dom]
            for a, pol in s.conds:
                if _names(a) == {"length"}:
                    t = _atom_set(a, "length", dom)
                    if t is None:
                        pre_und.append(f"x64={x64}: path condition `{src(a)[:60]}` is not an interval test of the length")
                        continue
                    admitted = _iv_and(admitted, t if pol else _iv_not(t, dom))
            lim = _iv_and(admitted, _iv_not([(4, 4)] if x64 else [(3, _INF)], dom))
            if lim:
                pre_bad.append(f"x64={x64}: a URI is generated for length {_iv_text(lim)}")
            # candidate shape (expand a havoc'd loop symbol to the definition that reaches the loop end)
            cand = v
            if isinstance(v, ast.Name) and "@" in v.id:
                nm, _, k = v.id.partition("@")
                lp = ex.loops.get(int(k)) if k.isdigit() else None
                if lp is not None:
                    defs = {src(b.env[nm]): b.env[nm] for b in lp.iters if nm in b.env and not (isinstance(b.env[nm], ast.Name) and b.env[nm].id == v.id)}
                    if lp.pre.get(nm) is not None:
                        defs[src(lp.pre[nm])] = lp.pre[nm]
                    if len(defs) == 1:
                        cand = list(defs.values())[0]
            shape[src(cand)] = _candidate_shape(cand, "length", f.module)
    if dom_bad:
        ctx.ob("R4", "DOM", f, "return <uri>", False, "; ".join(dict.fromkeys(dom_bad))[:400])
    elif dom_und:
        ctx.undecided("R4", "DOM", f, "return <uri>", "; ".join(dict.fromkeys(dom_und))[:400])
    else:
        ctx.ob("R4", "DOM", f, "return <uri>", nret > 0, f"every one of the {nret} returning paths returns the very value that passed a classifier call on its true edge")
    ctx.ob("R4", "AGREE", f, "is_stager = is_stager_x64 if x64 else is_stager_x86", not sel_bad, "the classifier a returned URI passed is is_stager_x64 when x64 is set and is_stager_x86 otherwise" if not sel_bad else "; ".join(dict.fromkeys(sel_bad))[:300])
    if pre_bad or not pre_und:
        ctx.ob("R4", "DOM", f, "preconditions", not pre_bad, "URIs are only generated for length >= 3, and for x64 only for length == 4 (interval sets of the admitted lengths from the path conditions)" if not pre_bad else "; ".join(dict.fromkeys(pre_bad))[:300])
    else:
        ctx.undecided("R4", "DOM", f, "preconditions", "; ".join(dict.fromkeys(pre_und))[:300])
    # shape of the candidates
    shapes = list(shape.items())
    if not shapes or any(v is None for _t, v in shapes):
        t = next((t for t, v in shapes if v is None), "")
        ctx.undecided("R4", "AGREE", f, "uri = '/' + length chars", f"candidate expression `{t[:120]}` is not '/' + ''.join(<length random choices>)")
        ctx.undecided("R4", "TABLE", f, "alphabet", "candidate expression not recognised")
        return
    pref_ok = all(v[0] for _t, v in shapes)
    cnt_ok = all(v[1] for _t, v in shapes)
    ctx.ob("R4", "AGREE", f, "uri = '/' + length chars", pref_ok and cnt_ok, f"candidate URIs are '/' followed by `length` characters: prefix={pref_ok}, count={cnt_ok}")
    alphas = [v[2] for _t, v in shapes]
    if any(a is None for a in alphas):
        ctx.undecided("R4", "TABLE", f, "alphabet", f"alphabet `{shapes[0][1][3][:80]}` is not a constant string expression")
    else:
        ok = all(a and a <= _ALNUM for a in alphas)
        ctx.ob("R4", "TABLE", f, "alphabet", ok, "alphabet is within ASCII letters + digits (the x64 class [A-Za-z0-9])" if ok else f"alphabet contains {sorted(set().union(*alphas) - _ALNUM)[:8]}, outside [A-Za-z0-9]")


# ===================================================================================================== R5 staged beacon gate
def _has_attr_chain(e, text):
    return any(isinstance(n, ast.Attribute) and dotted(n) == text for n in ast.walk(e))


_STR_TRANSFORMS = {"lower", "upper", "strip", "lstrip", "rstrip", "replace", "split", "rsplit", "partition", "rpartition", "title", "swapcase", "casefold",
                   "capitalize", "removeprefix", "removesuffix", "translate", "zfill", "center", "ljust", "rjust", "join", "format", "expandtabs"}


def _uri_arg_kind(arg, uri):
    """How a classifier argument relates to the request URI `uri` (dotted text): "exact" (the URI itself, decoded to
    text at most), "transformed" (string surgery on it: another string is classified), "unknown" (derived in a way the
    rule does not model), None (unrelated)."""
    if not _has_attr_chain(arg, uri):
        return None
    e = arg
    while True:
        if dotted(e) == uri:
            return "exact"
        if isinstance(e, ast.Call) and isinstance(e.func, ast.Attribute) and e.func.attr == "decode":
            e = e.func.value
        elif isinstance(e, ast.Call) and dotted(e.func) == "str" and e.args:
            e = e.args[0]
        else:
            break
    for n in ast.walk(arg):
        if isinstance(n, ast.Call) and isinstance(n.func, ast.Attribute) and n.func.attr in _STR_TRANSFORMS and _has_attr_chain(n.func.value, uri):
            return "transformed"
        if isinstance(n, ast.Subscript) and _has_attr_chain(n.value, uri):
            return "transformed"
        if isinstance(n, ast.BinOp) and isinstance(n.op, (ast.Add, ast.Mod, ast.Mult)) and (_has_attr_chain(n.left, uri) or _has_attr_chain(n.right, uri)):
            return "transformed"
        if isinstance(n, ast.JoinedStr):
            return "transformed"
    return "unknown"


_TABLE_MUTATORS = _MUTATORS | {"append", "extend", "__setitem__", "__delitem__"}


def _const_table(ctx, f, e):
    """Value of a constant container expression of the analysed code (device 6): a literal, or a module-level constant -
    resolved in the module the name stems from - that no module of the package rebinds, stores into or calls a mutator
    on.  None when it is not such a constant."""
    node = e
    if isinstance(e, (ast.Name, ast.Attribute)):
        sym = _lookup(ctx, f, e)
        if sym is None or sym.kind != "const" or (isinstance(e, ast.Name) and e.id in params(f.node) and getattr(e, "_home", None) is None):
            return None
        m = ctx.repo.modules.get(sym.module)
        node = m.consts.get(sym.name) if m else None
        if node is None:
            return None
        binds = 0
        for m2 in ctx.repo.modules.values():
            for n in ast.walk(m2.tree):
                if isinstance(n, ast.Name) and n.id == sym.name and isinstance(n.ctx, (ast.Store, ast.Del)):
                    binds += 1 if m2.name == sym.module else 0
                elif isinstance(n, ast.Global) and sym.name in n.names:
                    return None
                elif isinstance(n, (ast.Subscript, ast.Attribute)) and isinstance(n.ctx, (ast.Store, ast.Del)) and (dotted(n.value) or "").split(".")[-1] == sym.name:
                    return None
                elif isinstance(n, ast.Attribute) and isinstance(n.ctx, (ast.Store, ast.Del)) and n.attr == sym.name:
                    return None
                elif isinstance(n, ast.Call) and isinstance(n.func, ast.Attribute) and n.func.attr in _TABLE_MUTATORS and (dotted(n.func.value) or "").split(".")[-1] == sym.name:
                    return None
        if binds != 1:
            return None
    try:
        return _fold(node)
    except _NoEval:
        return None


def _ints_set(vals):
    """Interval set of a collection of constants that are all plain integers; None otherwise."""
    vals = list(vals)
    if not all(type(v) is int for v in vals):
        return None
    return _iv_and(_iv_norm([(v, v) for v in vals]), [_C8_DOM])


def _c8_region(ctx, f, a):
    """Interval set of the values of the atom `$c8` (a checksum8 value, L11: [0, 255]) for which the test `a` - a term over
    `$c8` and constants of the analysed code only - holds; None when `a` is outside the recognised forms:
      * a comparison of the atom with an integer constant (polynomial normal form, mirrored spellings);
      * membership of the atom in a constant collection (device 6; a dict: its keys);
      * ONE lookup of the atom in a constant table, `T.get($c8[, d])` / `T[$c8]`, inside a constant test: case analysis
        over the table's own keys plus the case "any other value" (device 5), the test folded per case (device 6);
        `T[$c8]` raises for the other values."""
    t = _atom_set(a, "$c8", _C8_DOM)
    if t is not None:
        return t
    if isinstance(a, ast.Compare) and len(a.ops) == 1 and isinstance(a.ops[0], (ast.In, ast.NotIn)) and isinstance(a.left, ast.Name) and a.left.id == "$c8":
        coll = _const_table(ctx, f, a.comparators[0])
        if not isinstance(coll, (dict, set, frozenset, list, tuple, range)):
            return None
        t = _ints_set(coll)
        if t is None:
            return None
        return t if isinstance(a.ops[0], ast.In) else _iv_not(t, _C8_DOM)
    found = []
    for n in ast.walk(a):
        key = dflt = None
        if isinstance(n, ast.Call) and isinstance(n.func, ast.Attribute) and n.func.attr == "get" and 1 <= len(n.args) <= 2 and not n.keywords:
            tab, key, kind = n.func.value, n.args[0], "get"
            dflt = n.args[1] if len(n.args) == 2 else ast.Constant(value=None)
        elif isinstance(n, ast.Subscript) and not isinstance(n.slice, ast.Slice):
            tab, key, kind = n.value, n.slice, "item"
        if key is not None and isinstance(key, ast.Name) and key.id == "$c8":
            found.append((n, tab, kind, dflt))
    if len(found) != 1:
        return None
    n, tab, kind, dflt = found[0]
    table = _const_table(ctx, f, tab)
    if not isinstance(table, dict) or _ints_set(table) is None:
        return None
    marker = ast.Name(id="$cell", ctx=ast.Load())
    test = _replace_node(a, n, marker)
    if "$c8" in _names(test):
        return None

    def holds(v):
        try:
            return bool(_fold(test, {"$cell": v}))
        except _NoEval:
            return None

    out = []
    for k, v in table.items():
        h = holds(v)
        if h is None:
            return None
        if h and _C8_DOM[0] <= k <= _C8_DOM[1]:
            out.append((k, k))
    if kind == "get":
        try:
            h = holds(_fold(dflt))
        except _NoEval:
            h = None
        if h is None:
            return None
        if h:
            out.extend(_iv_not(_ints_set(table), _C8_DOM))
    return _iv_norm(out)


def _gate_verdict(ctx, f, conds, uri, req, neg86):
    """Judge the conditions of one path of find_staged_beacon that reaches the extraction with a known request and
    without a positive is_stager_x86/x64 call, when they constrain the request URI through its checksum8 / its shape
    themselves (a table-driven or re-spelled gate).  -> (True, text) the conditions imply a stager classification;
    (False, text) they admit a URI that neither classifier accepts; (None, text) outside the recognised forms.
    `neg86`: the path also carries a failed is_stager_x86(uri) (checksum8 != 92 by R3)."""

    class U(ast.NodeTransformer):
        def visit(self, n):
            if isinstance(n, ast.expr) and _uri_arg_kind(n, uri) == "exact":
                return ast.Name(id="$uri", ctx=ast.Load())
            return self.generic_visit(n)

    class C(ast.NodeTransformer):
        def visit_Call(self, n):
            self.generic_visit(n)
            sym = _lookup(ctx, f, n.func)
            if sym is not None and sym.kind in ("func", "partial") and sym.fq == "utils.checksum8" and len(n.args) == 1 and not n.keywords and isinstance(n.args[0], ast.Name) and n.args[0].id == "$uri":
                return ast.Name(id="$c8", ctx=ast.Load())
            return n

    region = [_C8_DOM]
    if neg86:
        region = _iv_not([(92, 92)], _C8_DOM)
    shapes, rx, seen_c8, other = set(), False, False, []
    for a, pol in conds:
        if not _has_attr_chain(a, req):
            continue
        a2 = C().visit(U().visit(copy.deepcopy(a)))
        names = _names(a2)
        if _has_attr_chain(a2, req):
            other.append(a)
        elif "$c8" in names and "$uri" not in names:
            t = _c8_region(ctx, f, a2)
            if t is None:
                other.append(a)
            else:
                seen_c8 = True
                region = _iv_and(region, t if pol else _iv_not(t, _C8_DOM))
        elif "$uri" in names and "$c8" not in names:
            # a shape test of the URI: the x64 regular expression (judged like the classifier's own, R3) or string predicates
            call, none_pol = a2, pol
            if isinstance(a2, ast.Compare) and len(a2.ops) == 1 and isinstance(a2.comparators[0], ast.Constant) and a2.comparators[0].value is None and isinstance(a2.ops[0], (ast.Is, ast.IsNot, ast.Eq, ast.NotEq)):
                call, none_pol = a2.left, (not pol if isinstance(a2.ops[0], (ast.Is, ast.Eq)) else pol)
            home = ctx.repo.modules.get(_home_of(f, call.func.value if isinstance(call, ast.Call) and isinstance(call.func, ast.Attribute) else call))

            class _Shim:
                module = home if home is not None else f.module

            located = [x for x in _regex_calls(ctx, _Shim, call, "$uri") if x[0] is call]
            if located:
                _n, kind, pat, fl = located[0]
                good = pat is not None and fl is not None and _x64_language_ok(kind, pat, fl)[0] is True and _whole_string(kind, pat, fl or 0)[0] is True
                if good and none_pol:
                    rx = True
                elif not (good and not none_pol):
                    other.append(a)
                continue
            sh = _shape_atom(a2, "$uri")
            if sh in ("len5", "slash", "alnum", "ascii") and pol:
                shapes.add(sh)
            else:
                other.append(a)
        else:
            other.append(a)
    if not seen_c8:
        return None, "no test of the checksum8 of the request URI"
    if other:
        return None, f"a condition on the request the rule does not interpret: `{src(other[0])[:80]}`"
    if not region:
        return True, "infeasible"
    shape_ok = rx or {"len5", "slash", "alnum", "ascii"} <= shapes
    if shapes and not shape_ok:
        return None, f"string predicates {sorted(shapes)} on the request URI that do not add up to the x64 shape"
    allowed = [(92, 93)] if shape_ok else [(92, 92)]
    extra = _iv_and(region, _iv_not(allowed, _C8_DOM))
    if not extra:
        return True, f"the path conditions confine checksum8(request uri) to {_iv_text(region)}" + (" and establish the shape '/' + four ASCII alphanumerics" if shape_ok and _iv_and(region, [(93, 93)]) else "")
    rest = _iv_and(extra, _iv_not([(93, 93)], _C8_DOM))
    if rest:
        return False, (f"the path conditions admit checksum8(request uri) in {_iv_text(region)}: a URI '/' + four alphanumerics with checksum8 {rest[0][0]} exists (L28) and neither classifier accepts it "
                       f"(is_stager_x86 <=> 92, is_stager_x64 <=> 93 and the shape)")
    return False, (f"the path conditions admit checksum8(request uri) in {_iv_text(region)} and read the request URI through checksum8 only: checksum8 == 93 is only one of the two conjuncts of is_stager_x64 - "
                   "u + '/' has the checksum8 of a URI u of four or more characters and is not '/' + four alphanumerics (L30), so a known request that neither classifier accepts reaches the extraction")


def r5(ctx):
    f = ctx.repo.func("pcap.BeaconCapture.find_staged_beacon")
    ps = params(f.node)
    resp = ps[1] if len(ps) > 1 else ps[0]
    TEXT = "from_bytes dominated by a positive stager test"
    ex, states = _try_paths(ctx, "R5", "DOM", f, TEXT, resolver=_helper_resolver(ctx, f, {"utils.is_stager_x86", "utils.is_stager_x64", "utils.checksum8", "beacon.BeaconConfig"}))
    if states is None:
        return
    req = f"{resp}.request"
    uri = f"{resp}.request.uri"

    def sinks(e):
        out = []
        for n in ast.walk(e):
            if isinstance(n, ast.Call):
                s = _lookup(ctx, f, n.func)
                if s is not None and s.kind == "func" and s.fq.startswith("beacon.BeaconConfig.from_"):
                    out.append(n)
        return out

    def request_test(a, pol):
        """Does the condition say the request is known (True) / unknown (False)?  None: not a request test."""
        if dotted(a) == req:
            return pol
        if isinstance(a, ast.Compare) and len(a.ops) == 1 and dotted(a.left) == req and isinstance(a.comparators[0], ast.Constant) and a.comparators[0].value is None:
            if isinstance(a.ops[0], (ast.Is, ast.Eq)):
                return not pol
            if isinstance(a.ops[0], (ast.IsNot, ast.NotEq)):
                return pol
        return None

    # ---- object / module state that can hold the result of an (earlier) extraction: `self.A` (or a module-level container)
    # into which this function stores a value computed from a BeaconConfig.from_* call, or into which another method of
    # the class stores what this function returned (device 3: def-use on the path terms, writes located by role)
    self_name = ps[0] if len(ps) > 1 else None

    def state_root(e, env=None):
        """`self.A` / module-level NAME behind subscripts, method calls (`.get(k)`, `.pop(k)`) and further attributes of
        a term; None when the term is not a read of object / module state."""
        for _ in range(32):
            if isinstance(e, ast.Subscript):
                e = e.value
            elif isinstance(e, ast.Call) and isinstance(e.func, ast.Attribute):
                e = e.func.value
            elif isinstance(e, ast.Call) and dotted(e.func) in ("$mut", "$append", "$extend") and e.args:
                e = e.args[0]
            elif isinstance(e, ast.Attribute):
                d = dotted(e)
                if d and self_name and d.startswith(self_name + "."):
                    return ".".join(d.split(".")[:2])
                e = e.value
            elif isinstance(e, ast.Name):
                if env is not None and e.id in env and env[e.id] is not e:
                    e, env = env[e.id], None  # a local alias of the container (its term at the end of the path)
                    continue
                return e.id if e.id in f.module.consts and e.id not in ps else None
            else:
                return None
        return None

    def carries(v):
        return v is not None and bool(sinks(v))

    holds = {}  # state root -> how an extraction result gets there
    for s in states:
        for stm, v in s.events:
            if isinstance(stm, (ast.Assign, ast.AnnAssign, ast.AugAssign)):
                pairs = []

                def spread(t, val):
                    if isinstance(t, (ast.Tuple, ast.List)):
                        same = isinstance(val, (ast.Tuple, ast.List)) and len(val.elts) == len(t.elts) and not any(isinstance(x, ast.Starred) for x in list(t.elts) + list(val.elts))
                        for i, x in enumerate(t.elts):
                            spread(x, val.elts[i] if same else val)
                    else:
                        pairs.append((t, val))

                for t in (stm.targets if isinstance(stm, ast.Assign) else [stm.target]):
                    spread(t, v)
                for t, val in pairs:
                    if isinstance(t, (ast.Attribute, ast.Subscript)) and carries(val):
                        r = state_root(t, s.env)
                        if r:
                            holds.setdefault(r, f"`{src(t)[:50]} = ..` stores the result of `{src(sinks(val)[0])[:50]}`")
            elif isinstance(stm, ast.Expr) and isinstance(v, ast.Call) and isinstance(v.func, ast.Attribute):
                if any(carries(x) for x in list(v.args) + [kw.value for kw in v.keywords]):
                    r = state_root(v.func.value, s.env)
                    if r:
                        holds.setdefault(r, f"`{src(stm.value)[:60]}` stores the result of an extraction")
    if self_name and f.cls:
        me = f"{self_name}.{f.node.name}"
        for g in ctx.repo.methods(f"{f.module.name}.{f.cls}"):
            if g.node is f.node or not isinstance(g.node, (ast.FunctionDef, ast.AsyncFunctionDef)):
                continue
            gps = params(g.node)
            if not gps:
                continue
            got = {}  # locals of g bound to this function's result
            for n in ast.walk(g.node):
                if isinstance(n, ast.Assign) and isinstance(n.value, ast.Call) and dotted(n.value.func) == f"{gps[0]}.{f.node.name}":
                    got.update((x, True) for t in n.targets for x in _target_names(t))
            for n in ast.walk(g.node):
                if isinstance(n, ast.Assign):
                    val = n.value
                    from_me = (isinstance(val, ast.Call) and dotted(val.func) == f"{gps[0]}.{f.node.name}") or (isinstance(val, ast.Name) and val.id in got)
                    if from_me:
                        for t in n.targets:
                            d = dotted(t) if isinstance(t, ast.Attribute) else None
                            if d and d.startswith(gps[0] + ".") and d.count(".") == 1:
                                holds.setdefault(f"{self_name}.{d.split('.')[1]}", f"{g.qualname} stores what {me}() returned in `{d}`")

    bad, undec, exits, semantic = [], [], [], []
    stale, stale_undec, none_paths = [], [], 0
    nsink = 0
    args = []
    for s in states:
        calls = [(st, c) for st, v in s.events for c in sinks(v)]
        known = None
        tests = {}
        opaque = []
        transformed = []
        free = []  # conditions that are neither tests of the request being known nor classifier calls on its URI
        for a, pol in s.conds:
            r = request_test(a, pol)
            if r is not None:
                known = r if known is None else (known and r)
                continue
            fq = None
            if isinstance(a, ast.Call):
                sym = _lookup(ctx, f, a.func)
                fq = sym.fq if sym is not None and sym.kind in ("func", "partial") else None
            kind = _uri_arg_kind(a.args[0], uri) if fq in ("utils.is_stager_x86", "utils.is_stager_x64") and len(a.args) == 1 else None
            if kind != "exact":
                free.append((a, pol))
            if kind == "exact":
                tests[fq] = pol if fq not in tests else (tests[fq] or pol)
            elif kind == "transformed":
                if pol:
                    transformed.append(a)
            elif kind == "unknown":
                opaque.append(a)
            elif fq in ("utils.is_stager_x86", "utils.is_stager_x64"):
                # a classifier applied to something else: only unclear when that something still comes from the request
                if any(_has_attr_chain(x, req) for x in a.args):
                    opaque.append(a)
            elif _has_attr_chain(a, req) and _could_classify(a):
                opaque.append(a)
        positive = any(tests.values())
        negative = tests.get("utils.is_stager_x86") is False and tests.get("utils.is_stager_x64") is False
        if known is False:
            continue
        if negative and s.end[0] == "return" and not calls:
            exits.append(s)
        if not calls and not positive and s.end[0] in ("return", "fall"):
            # a path that a response with a known request takes without its URI having passed a classifier: what it hands
            # back must not be the result of an extraction (made for another response)
            v = s.end[1]
            if v is None or (isinstance(v, ast.Constant) and v.value is None):
                none_paths += 1
            elif not negative:  # (after two failed classifier tests the EXIT obligation below judges the value)
                r = state_root(v)
                reads = [a for a, pol in s.conds if request_test(a, pol) is None and _has_attr_chain(a, req)] + ([v] if _has_attr_chain(v, req) else [])
                where = f"path {_cond_text(s.conds)[:4]} returns `{src(v)[:70]}`"
                if r in holds and not reads:
                    stale.append(f"{where}; {holds[r]}; neither the path conditions nor the returned term read the request URI, so a response with a known non-stager request is handed the beacon found for another response")
                elif r in holds:
                    stale_undec.append(f"{where}, state that holds extraction results ({holds[r]}), under the condition `{src(reads[0])[:60]}` on the request, which the rule does not interpret")
                else:
                    stale_undec.append(f"{where}, which the rule cannot relate to an extraction result or to None")
        if not calls:
            continue
        nsink += 1
        args.extend(c for _st, c in calls)
        if positive:
            continue
        why = f"path {_cond_text(s.conds)[:5]} reaches {src(calls[0][1])[:60]}"
        if transformed and not negative:
            bad.append(f"the classifier is applied to a transformed URI `{src(transformed[0].args[0])[:80]}`, not to the request URI itself: " + why)
        elif negative or not opaque:
            bad.append(("the request URI failed both stager classifiers: " if negative else "no stager test of the request URI: ") + why)
        else:
            # not a classifier call: a gate that tests the checksum8 / the shape of the request URI itself (table-driven,
            # re-spelled) is judged by what its conditions admit (devices 4-6, L28/L30)
            ok, text = _gate_verdict(ctx, f, free, uri, req, tests.get("utils.is_stager_x86") is False)
            if ok is True:
                semantic.append(text)
            elif ok is False:
                bad.append(f"{text}: " + why)
            else:
                undec.append(f"guarded by `{src(opaque[0])[:80]}`, not a direct is_stager_x86/x64 call ({text}): " + why)
    total_sinks = sum(1 for s in states for _st, v in s.events for _c in sinks(v))
    if total_sinks == 0:
        ctx.undecided("R5", "DOM", f, TEXT, "no BeaconConfig.from_* extraction call found on any path")
        return
    if bad:
        ctx.ob("R5", "DOM", f, TEXT, False, f"with a known request the extraction must only be reachable after is_stager_x86/x64(request uri) was true: {bad[0][:640]}")
    elif undec:
        ctx.undecided("R5", "DOM", f, TEXT, undec[0][:300])
    else:
        ctx.ob("R5", "DOM", f, TEXT, True, f"every path with a known request that reaches the extraction ({nsink} path(s)) carries a positive is_stager_x86/x64 test of the request URI" + (f", or conditions on its checksum8 / shape that imply one ({len(semantic)} path(s): {semantic[0][:160]})" if semantic else ""))
    STALE = "no stored extraction result is returned around the stager gate"
    if stale:
        ctx.ob("R5", "TAINT", f, STALE, False, stale[0][:420])
    elif stale_undec:
        ctx.undecided("R5", "TAINT", f, STALE, stale_undec[0][:400])
    else:
        ctx.ob("R5", "TAINT", f, STALE, True, f"every returning path that a response with a known request can take without a positive stager test of its URI ({none_paths} path(s)) returns None" + (f"; state that holds extraction results: {sorted(holds)}" if holds else ""))
    if exits:
        wrong = [s for s in exits if not (s.end[1] is None or (isinstance(s.end[1], ast.Constant) and s.end[1].value is None))]
        ctx.ob("R5", "EXIT", f, "non-stager -> None", not wrong, "a known non-stager request yields None" if not wrong else f"a known non-stager request yields `{src(wrong[0].end[1])[:80]}`")
    body_ok = bool(args) and all(c.args and dotted(c.args[0]) == f"{resp}.body" for c in args)
    if args and not body_ok and not any(c.args and _mentions(c.args[0], resp) for c in args):
        ctx.undecided("R5", "AGREE", f, "BeaconConfig.from_bytes(response.body)", f"extraction argument `{src(args[0].args[0]) if args[0].args else ''}` is not derived from the response")
    else:
        ctx.ob("R5", "AGREE", f, "BeaconConfig.from_bytes(response.body)", body_ok, "the beacon is extracted from the response body" if body_ok else f"the beacon is extracted from `{src(args[0].args[0])[:80] if args and args[0].args else None}`")


# ===================================================================================================== R6 NetBIOS
class _Nibbles(ast.NodeTransformer):
    """Replace the sub-terms of the byte variable `cv` (0 <= cv < 256, L17) that are its high / low nibble by the atoms
    `$hi` / `$lo` (L18, L4); a recognised *other* part of the byte (wrong shift, wrong mask, wrong modulus) becomes an atom
    `$part<n>` so that the caller can tell a located-but-wrong symbol from an unknown spelling."""

    def __init__(self, cv):
        self.cv = cv
        self.parts = {}

    def _byte(self, x):
        return isinstance(x, ast.Name) and x.id == self.cv

    def _masked(self, x):
        """cv & m -> m; None otherwise"""
        if isinstance(x, ast.BinOp) and isinstance(x.op, ast.BitAnd):
            for a, b in ((x.left, x.right), (x.right, x.left)):
                m = _c(b)
                if self._byte(a) and isinstance(m, int) and not isinstance(m, bool):
                    return m
        return None

    def _part(self, node):
        k = self.parts.setdefault(src(node), f"$part{len(self.parts)}")
        return ast.Name(id=k, ctx=ast.Load())

    def visit(self, node):
        if isinstance(node, ast.BinOp):
            k = _c(node.right)
            k = k if isinstance(k, int) and not isinstance(k, bool) else None
            shift = k if isinstance(node.op, ast.RShift) else {16: 4, 2: 1, 4: 2, 8: 3, 32: 5, 64: 6, 128: 7}.get(k) if isinstance(node.op, ast.FloorDiv) else None
            if shift is not None and k is not None:
                m = self._masked(node.left)
                if self._byte(node.left) or m is not None:
                    # (cv & m) >> 4 == cv >> 4 when the mask keeps bits 4..7 (L18)
                    if shift == 4 and (m is None or m & 0xF0 == 0xF0):
                        return ast.Name(id="$hi", ctx=ast.Load())
                    return self._part(node)
            if isinstance(node.op, ast.Mod) and self._byte(node.left) and k is not None:
                return ast.Name(id="$lo", ctx=ast.Load()) if k == 16 else self._part(node)
            m = self._masked(node)
            if m is not None:
                return ast.Name(id="$lo", ctx=ast.Load()) if m & 0xFF == 0x0F else self._part(node)
        if isinstance(node, ast.Subscript) and isinstance(node.value, ast.Call) and dotted(node.value.func) == "divmod" and len(node.value.args) == 2 and self._byte(node.value.args[0]) \
                and isinstance(node.slice, ast.Constant) and node.slice.value in (0, 1) and not isinstance(node.slice.value, bool):
            if _c(node.value.args[1]) == 16:
                return ast.Name(id="$hi" if node.slice.value == 0 else "$lo", ctx=ast.Load())
            return self._part(node)
        return super().visit(node)


def _offset_transformed(p, off):
    """Does the normal form contain the offset only inside an operation that is not the identity (L23)?  -> text or None"""
    o = SymPoly.atom(off)
    for name in p.atoms():
        b = _BITS.get(name)
        if b is not None:
            tag, x, y = b
            for u, m in ((x, _int_const(y)), (y, _int_const(x))):
                if u == o and m is not None and ((tag == "band" and m != -1) or (tag != "band" and m != 0)):
                    return name
        d = _DIVS.get(name)
        if d is not None and d[0] == "md" and d[1] == o and _int_const(d[2]) is not None:
            return name
    return None


def _seq_builder(ex, v):
    """A returned byte sequence as (iterable term, loop target, [element terms per iteration]) from either a
    comprehension or a list-building loop; None when the term has another shape."""
    v = _strip_view(v)
    if isinstance(v, (ast.ListComp, ast.GeneratorExp)):
        gens = v.generators
        if any(g.ifs or g.is_async for g in gens) or len(gens) > 2:
            return None
        elts = [v.elt]
        if len(gens) == 2:
            g2 = gens[1]
            it2 = g2.iter
            if isinstance(it2, ast.Call) and dotted(it2.func) == "divmod" and len(it2.args) == 2:
                items = [ast.BinOp(left=it2.args[0], op=ast.FloorDiv(), right=it2.args[1]), ast.BinOp(left=it2.args[0], op=ast.Mod(), right=it2.args[1])]  # L4
            elif isinstance(it2, (ast.Tuple, ast.List)):
                items = list(it2.elts)
            else:
                return None
            if not isinstance(g2.target, ast.Name):
                return None
            elts = [_subst_name(v.elt, g2.target.id, x) for x in items]
        return gens[0].iter, gens[0].target, elts
    if isinstance(v, ast.Name) and "@" in v.id:
        nm, _, k = v.id.partition("@")
        lp = ex.loops.get(int(k)) if k.isdigit() else None
        if lp is None or not isinstance(lp.stmt, ast.For) or lp.exits or len(lp.iters) != 1:
            return None
        pre = lp.pre.get(nm)
        try:
            if pre is None or len(_fold(pre)) != 0:  # the accumulator starts as a constant empty sequence
                return None
        except (_NoEval, TypeError):
            return None
        elts = _emissions(lp.iters[0].env.get(nm), v.id)
        if elts is None:
            return None
        # loop target as symbols
        tgt = copy.deepcopy(lp.stmt.target)
        for n in ast.walk(tgt):
            if isinstance(n, ast.Name):
                n.id = lp.head.get(n.id, n.id)
        return lp.iter, tgt, elts
    return None


def _subst_name(e, name, repl):
    class R(ast.NodeTransformer):
        def visit_Name(self, n):
            return copy.deepcopy(repl) if n.id == name and isinstance(n.ctx, ast.Load) else n

    return R().visit(copy.deepcopy(e))


def _emissions(t, head):
    """`$append($append(acc@k, a), b)` / `acc@k + [a, b]` / `$extend(acc@k, (a, b))` -> [a, b]."""
    if isinstance(t, ast.Name):
        return [] if t.id == head else None
    if isinstance(t, ast.Call) and dotted(t.func) == "$append" and len(t.args) == 2:
        base = _emissions(t.args[0], head)
        return None if base is None else base + [t.args[1]]
    items = None
    if isinstance(t, ast.Call) and dotted(t.func) == "$extend" and len(t.args) == 2:
        base, items = t.args[0], t.args[1]
    elif isinstance(t, ast.BinOp) and isinstance(t.op, ast.Add):
        base, items = t.left, t.right
    if items is None:
        return None
    items = _strip_view(items)
    if not isinstance(items, (ast.Tuple, ast.List)) or any(isinstance(x, ast.Starred) for x in items.elts):
        return None
    b = _emissions(base, head)
    return None if b is None else b + list(items.elts)


def _generator_items(ex, resolve, call):
    """The iterable `call` is a call of a repository *generator function* whose body is one for-loop that yields on its
    single body path (`for T in IT: [temporaries] yield A; yield B` / `yield from (A, B)`), nothing being yielded outside
    that loop: -> (IT, T, [A, B]) over the argument terms of the call - per element of IT the generator produces A, B in
    this order.  The loop body is walked once with the loop variable symbolic (the same executor as for the analysed
    function; parameters bound to the argument terms).  "unknown" when the call is a call of a repository function
    that is not of this shape, None when it is not a call of a repository function at all."""
    if not isinstance(call, ast.Call):
        return None
    r = resolve(call)
    if r is None:
        return None
    fn, skip, home = r
    ys = [n for n in ast.walk(fn) if isinstance(n, (ast.Yield, ast.YieldFrom))]
    if not ys or any(isinstance(n, (ast.FunctionDef, ast.AsyncFunctionDef, ast.Lambda)) for n in ast.walk(fn) if n is not fn):
        return "unknown"
    a = fn.args
    if skip or a.vararg or a.kwarg or a.kwonlyargs or call.keywords or any(isinstance(x, ast.Starred) for x in call.args):
        return "unknown"
    names = [x.arg for x in a.posonlyargs + a.args]
    dflt = param_defaults(fn)
    if len(call.args) > len(names) or any(n not in dflt for n in names[len(call.args):]):
        return "unknown"
    preset = {n: x for n, x in zip(names, call.args)}
    preset.update({n: dflt[n] for n in names[len(call.args):]})
    sub = _Exec(fn, preset, None, ex.depth + 1, home)
    sub.sites, sub.syms = ex.sites, ex.syms
    try:
        states = sub.run()
    except (_Unsupported, RecursionError):
        return "unknown"
    if len(states) != 1 or states[0].end[0] not in ("fall", "return") or states[0].end[1] is not None or len(sub.loops) != 1:
        return "unknown"
    lp = next(iter(sub.loops.values()))
    if not isinstance(lp.stmt, ast.For) or lp.stmt.orelse or lp.exits or len(lp.iters) != 1:
        return "unknown"
    inside = {id(n) for s in lp.stmt.body for n in ast.walk(s)}
    if any(id(y) not in inside for y in ys):
        return "unknown"  # something is yielded before / after the loop
    items = []
    seen = 0
    for s, v in lp.iters[0].events:
        if id(s) not in inside:
            continue
        here = [n for n in ast.walk(v) if isinstance(n, (ast.Yield, ast.YieldFrom))]
        if not here:
            continue
        if not (isinstance(s, ast.Expr) and here == [v] and v.value is not None):
            return "unknown"  # the value sent into the generator is used / a bare yield
        seen += 1
        if isinstance(v, ast.Yield):
            items.append(v.value)
        else:
            seq = _strip_view(v.value)
            if not isinstance(seq, (ast.Tuple, ast.List)) or any(isinstance(x, ast.Starred) for x in seq.elts):
                return "unknown"
            items.extend(seq.elts)
    if seen != len(ys):
        return "unknown"  # a yield in a nested statement the single body path did not pass (nested loop, handler)
    tgt = copy.deepcopy(lp.stmt.target)
    for n in ast.walk(tgt):
        if isinstance(n, ast.Name):
            n.id = lp.head.get(n.id, n.id)
    return lp.iter, tgt, items


def _through_generators(ex, resolve, sb):
    """A sequence builder (iterable, target, element terms) whose iterable is a call of a repository generator function
    (`_generator_items`): the builder over the generator's own iterable, every produced item substituted for the
    builder's loop variable in the element terms (item-major order, as the consumer sees them).  -> builder, or "unknown"
    when the iterable is a repository call that cannot be summarised."""
    for _ in range(3):
        it, tgt, elts = sb
        g = _generator_items(ex, resolve, it)
        if g is None:
            return sb
        if g == "unknown" or not isinstance(tgt, ast.Name):
            return "unknown"
        it2, tgt2, items = g
        sb = (it2, tgt2, [_subst_name(e, tgt.id, y) for y in items for e in elts])
    return "unknown"


def _range_params(it):
    """range(b) / range(a, b) / range(a, b, s) with a constant step -> (start term, stop term, step int) or None."""
    if not (isinstance(it, ast.Call) and dotted(it.func) == "range" and not it.keywords and 1 <= len(it.args) <= 3):
        return None
    if len(it.args) == 1:
        return ast.Constant(value=0), it.args[0], 1
    st = _c(it.args[2]) if len(it.args) == 3 else 1
    if not isinstance(st, int) or isinstance(st, bool) or st < 1:
        return None
    return it.args[0], it.args[1], st


class _OrAsAdd(ast.NodeTransformer):
    """`(t << 4) | l` / `(t * 16) | l` -> `(t << 4) + l` when l is one encoder symbol minus the offset, i.e. a nibble in
    [0, 15] under the encoder hypothesis (L20)."""

    def __init__(self, off):
        self.nib = [SymPoly.atom(s) - SymPoly.atom(off) for s in ("$x", "$y")]

    def visit_BinOp(self, n):
        self.generic_visit(n)
        if isinstance(n.op, ast.BitOr):
            for hi, lo in ((n.left, n.right), (n.right, n.left)):
                mult16 = (isinstance(hi, ast.BinOp) and isinstance(hi.op, ast.LShift) and _c(hi.right) == 4) or \
                         (isinstance(hi, ast.BinOp) and isinstance(hi.op, ast.Mult) and 16 in (_c(hi.left), _c(hi.right)))
                if mult16 and _P(lo) in self.nib:
                    return ast.BinOp(left=hi, op=ast.Add(), right=lo)
        return n


def r6(ctx):
    e, d = ctx.repo.func("utils.netbios_encode"), ctx.repo.func("utils.netbios_decode")
    enc = dec = None
    # ---- encoder: per input byte c the symbols (c >> 4) + offset, (c & 15) + offset in this order
    TE, TD = "encoder nibble order", "decoder nibble order"
    for g, text in ((e, TE), (d, TD)):
        gps = params(g.node)
        ex, states = _try_paths(ctx, "R6", "AGREE", g, text)
        if states is None:
            continue
        rets = [s for s in states if s.end[0] == "return" and s.end[1] is not None]
        if len(rets) > 1:
            # an extra shortcut for empty input that returns the empty result does not matter: its path conditions
            # admit exactly len(data) == 0 (interval set) and its value folds to an empty constant
            def empty_shortcut(s):
                try:
                    if len(_fold(s.end[1])) != 0:
                        return False
                except (_NoEval, TypeError):
                    return False
                dom = (0, _INF)
                lens = [dom]
                for a, pol in s.conds:
                    a = _unview(a, gps[:1])
                    t = [(1, _INF)] if _is_param(a, gps[0]) else _atom_set(a, f"len({gps[0]})", dom)
                    if t is not None:
                        lens = _iv_and(lens, t if pol else _iv_not(t, dom))
                return lens == [(0, 0)]

            rets = [s for s in rets if not empty_shortcut(s)]
        if len(rets) != 1 or any(s.end[0] == "fall" for s in states):
            ctx.undecided("R6", "AGREE", g, text, f"{len(rets)} returning paths (expected one sequence-building path)")
            continue
        sb = _seq_builder(ex, rets[0].end[1])
        if sb is None:
            ctx.undecided("R6", "AGREE", g, text, f"result `{src(rets[0].end[1])[:120]}` is neither a comprehension nor a list filled by one for-loop")
            continue
        # a repository generator function between the data and the builder (`for n in _nibbles(data)`): its items per element
        sb = _through_generators(ex, _helper_resolver(ctx, g, ()), sb)
        if sb == "unknown":
            ctx.undecided("R6", "AGREE", g, text, f"the sequence is built from the items of `{_show(rets[0].end[1], 100)}`: a repository call the rule cannot summarise as a per-byte generator")
            continue
        sb = (_unview(sb[0], gps[:1]) if g is d else sb[0], sb[1], [_unview(x, gps[:1]) for x in sb[2]])
        if g is e:
            enc = (gps, sb)
        else:
            dec = (gps, sb)
    if enc is not None:
        (dp, op), (it, tgt, elts) = enc[0][:2], enc[1]
        src_ok = _is_param(_strip_view(it), dp)
        if not src_ok:
            if _mentions(it, dp):
                ctx.ob("R6", "AGREE", e, TE, False, f"the encoder iterates over a transformed copy of the data: `{src(it)[:80]}`")
            else:
                ctx.undecided("R6", "AGREE", e, TE, f"the encoder iterates over `{src(it)[:80]}`, not recognisably the data")
        elif not isinstance(tgt, ast.Name):
            ctx.undecided("R6", "AGREE", e, TE, "loop target is not a single byte variable")
        else:
            cv = tgt.id
            bad = und = None
            if len(elts) != 2:
                bad = f"{len(elts)} symbol(s) are emitted per input byte, required 2"
            else:
                nib = _Nibbles(cv)
                terms = [nib.visit(copy.deepcopy(x)) for x in elts]
                polys = [_P(x) for x in terms]
                off = SymPoly.atom(op)
                want = [SymPoly.atom("$hi") + off, SymPoly.atom("$lo") + off]
                if polys == want:
                    pass
                elif any(p is None for p in polys):
                    und = f"symbol expressions {[src(x)[:60] for x in elts]} are not arithmetic terms over the byte's nibbles and the offset"
                else:
                    atoms = set().union(*(p.atoms() for p in polys))
                    tr = next((t for t in (_offset_transformed(p, op) for p in polys) if t), None)
                    rest = atoms - {"$hi", "$lo", op} - set(nib.parts.values())
                    if tr and not (rest - {tr}):
                        bad = f"the offset is transformed before use ({tr}; L23)"
                    elif rest:
                        und = f"symbol expressions {[src(x)[:60] for x in elts]} contain terms the rule does not model: {sorted(rest)[:3]}"
                    else:
                        inv = {v: k for k, v in nib.parts.items()}
                        shown = [repr(p) for p in polys]
                        bad = f"per input byte the symbols are {shown}" + (f" with {', '.join(f'{k} = {inv[k]}' for k in sorted(inv))} not a nibble of the byte" if inv else "") + ", required [$hi + offset, $lo + offset] (high nibble c >> 4 first, then low nibble c & 15; L18)"
            if bad:
                ctx.ob("R6", "AGREE", e, TE, False, bad)
            elif und:
                ctx.undecided("R6", "AGREE", e, TE, und)
            else:
                ctx.ob("R6", "AGREE", e, TE, True, f"per input byte the symbols {[src(x) for x in elts]} = (high nibble + offset, low nibble + offset) in normal form (nibble forms L17/L18)")
    if dec is not None:
        (dp, op), (it, tgt, elts) = dec[0][:2], dec[1]
        bad = und = None
        roles = {}  # src text of a sub-term -> "$x" / "$y"
        if len(elts) != 1:
            bad = f"{len(elts)} bytes are produced per step, required 1"
        E1 = elts[0] if elts else None
        if bad is None:
            tn = _target_names(tgt)
            if isinstance(it, ast.Call) and dotted(it.func) == "zip" and len(it.args) == 2 and isinstance(tgt, (ast.Tuple, ast.List)) and len(tn) == 2:
                for name, a in zip(tn, it.args):
                    a = _strip_view(a) if not isinstance(a, ast.Subscript) else a
                    okk = isinstance(a, ast.Subscript) and _is_param(_strip_view(a.value), dp) and isinstance(a.slice, ast.Slice) and _c(a.slice.step) == 2 and a.slice.upper is None
                    lo = (0 if a.slice.lower is None else _c(a.slice.lower)) if okk else None
                    if lo not in (0, 1):
                        und = f"pair iteration `{src(it)[:80]}` is not a zip of the even and the odd positions of the data"
                    roles[name] = "$x" if lo == 0 else "$y"
                if und is None and sorted(roles.values()) != ["$x", "$y"]:
                    bad = f"pair iteration `{src(it)[:80]}` does not pair every even position with the following odd one"
            elif len(tn) == 1 and isinstance(tgt, ast.Name):
                iv = tgt.id
                subs = [n for n in ast.walk(E1) if isinstance(n, ast.Subscript) and _mentions(n.value, dp)]
                for n in subs:
                    if not _is_param(_strip_view(n.value), dp):
                        bad = f"the decoder reads a transformed copy of the data: `{src(n.value)[:80]}`"
                    elif isinstance(n.slice, ast.Slice):
                        und = f"slice access `{src(n)[:60]}`"
                if not subs and _mentions(E1, dp) is False:
                    und = "the decoded byte does not read the data by index"
                # positions: the j-th step has the index a + s*j (L22); the two reads must be at 2j and 2j + 1
                if bad is None and und is None:
                    rp = _range_params(it)
                    if rp is None:
                        und = f"iteration `{src(it)[:60]}` is not a range with a constant step"
                    else:
                        a0, stop, step = rp
                        jth = ast.BinOp(left=a0, op=ast.Add(), right=ast.BinOp(left=ast.Constant(value=step), op=ast.Mult(), right=ast.Name(id="$j", ctx=ast.Load())))
                        j2 = SymPoly.const(2) * SymPoly.atom("$j")
                        for n in subs:
                            pos = _P(_subst_name(n.slice, iv, jth))
                            if pos is None or not pos.atoms() <= {"$j"}:
                                und = und or f"index `{src(n.slice)[:40]}` is not an affine term of the loop variable"
                            elif pos == j2 or pos == j2 + _ONE:
                                r = "$x" if pos == j2 else "$y"
                                if roles.setdefault(src(n), r) != r:
                                    bad = bad or f"`{src(n)}` is not consistently the first/second symbol of a pair"
                            else:
                                bad = bad or f"step j reads position {pos!r}, required 2*j and 2*j + 1"
                        # number of steps: L // 2 for even L (L22)
                        ln = SymPoly.atom(f"len({dp})")
                        pa, pb = _P(a0), _P(stop)
                        if bad is None and und is None:
                            if pa is None or pb is None or _int_const(pa) != 0:
                                und = f"range bounds of `{src(it)[:60]}` not recognised"
                            elif (step == 2 and pb == ln) or (step == 1 and pb == _div_atom("fd", ln, SymPoly.const(2))):
                                pass
                            elif step == 1 and pb == ln:
                                bad = f"len({dp}) steps over len({dp}) symbols (`{src(it)[:60]}`), required len({dp}) // 2"
                            else:
                                und = f"number of steps of `{src(it)[:60]}` not recognised as len({dp}) // 2"
                    if bad is None and und is None and set(roles.values()) != {"$x", "$y"}:
                        bad = f"a step reads only {sorted(roles)} of its pair"
            else:
                und = f"iteration `{src(it)[:80]}` not recognised"
        if bad is None and und is None:
            # under the encoder hypothesis x = hi + offset, y = lo + offset the decoded byte must be 16*(x - offset) + (y - offset) (L19-L21)
            Ea = _abstract(E1, roles) if not all(k.isidentifier() for k in roles) else _subst_roles(E1, roles)
            pd = _P(_OrAsAdd(op).visit(Ea))
            x, y, off = SymPoly.atom("$x"), SymPoly.atom("$y"), SymPoly.atom(op)
            want = SymPoly.const(16) * (x - off) + (y - off)
            if pd is None:
                und = f"decoded byte `{src(E1)[:80]}` is not an arithmetic term over the two symbols and the offset"
            elif pd != want:
                tr = _offset_transformed(pd, op)
                rest = pd.atoms() - {"$x", "$y", op}
                if tr and not (rest - {tr}):
                    bad = f"the offset is transformed before use in `{src(E1)[:80]}` ({tr}; L23)"
                elif rest:
                    und = f"decoded byte `{src(E1)[:80]}` contains terms the rule does not model: {sorted(rest)[:3]}"
                else:
                    bad = f"the decoded byte is {pd!r} over the pair ($x, $y), required {want!r} (first symbol is the high nibble, each minus offset; L21)"
        if bad:
            ctx.ob("R6", "AGREE", d, TD, False, bad)
        elif und:
            ctx.undecided("R6", "AGREE", d, TD, und)
        else:
            ctx.ob("R6", "AGREE", d, TD, True, f"pairs (2j, 2j+1) of the data are combined as `{src(E1)[:80]}` = 16*($x - offset) + ($y - offset) in normal form, the inverse of the encoder's symbols (L19-L21)")
    de, dd = _c(param_defaults(e.node).get(params(e.node)[1])) if len(params(e.node)) > 1 else None, _c(param_defaults(d.node).get(params(d.node)[1])) if len(params(d.node)) > 1 else None
    ctx.ob("R6", "AGREE", e, "default offset", de == dd == 0x41, f"encoder default offset {de}, decoder {dd}")


def _subst_roles(e, roles):
    class R(ast.NodeTransformer):
        def visit_Name(self, n):
            return ast.Name(id=roles[n.id], ctx=ast.Load()) if n.id in roles else n

    return R().visit(copy.deepcopy(e))
