"""C10 - Regenerated profile text preserves every token (grammar-level analysis)."""

from __future__ import annotations

import ast
from collections import defaultdict

from csverif.astutil import body_walk, dotted, fn_calls, kwarg, src, statements
from csverif.grammar import Grammar
from csverif.q import origin


def run(ctx):
    rep = ctx.rep
    rep.explanation = (
        "Static analysis of the compiled Lark grammar c2profile.lark (loaded with the options of the Lark.open call in "
        "c2profile.py): the reachable expanded rules are grouped by the key lark's Reconstructor/TreeMatcher matches a tree "
        "node on - (tree name = alias or origin, sequence of non-filtered symbols); every group must have exactly one "
        "sequence of filtered keyword tokens, otherwise the second keyword is printed as the first. Exhaustive over the "
        "finite rule set. Plus terminal kinds (kept regexp terminals are named, filtered terminals are plain strings) and a "
        "token-preservation check of the whitespace post-processor and of as_text/from_text."
    )
    rep.not_decided = ["text equality for all sentences of the language", "whitespace handling by the lexer"]
    rep.trusted_base = ["lark 1.3.1 grammar loader and its TreeMatcher grouping rule (lark/tree_matcher.py: rules equal on (origin, kept expansion) are merged, first wins)", "CPython ast"]
    rep.exhaustive = True
    g = Grammar(ctx.repo)
    rep.extra["lark_options"] = {k: v for k, v in g.options.items()}
    rep.count("expanded_rules", len(g.rules), floor=240)
    rep.count("tree_names", len({r.tree_name for r in g.rules}), floor=155)
    rep.count("terminals", len(g.terminals), floor=140)
    r1(ctx, g)
    r2(ctx, g)
    r3(ctx)
    r5(ctx, g)
    # the STRING terminal decides where a literal ends: its regex structure (C12.R4) is a necessary condition for every
    # valid profile to lex into the tokens written
    from rules import c12

    ctx.import_obligations("R6", c12.r4)


def r1(ctx, g: Grammar):
    groups = defaultdict(list)
    for r in g.rules:
        groups[(r.tree_name, r.kept)].append(r)
    n = 0
    for (name, kept), rs in sorted(groups.items(), key=lambda kv: (kv[0][0], str(kv[0][1]))):
        if name.startswith("__"):
            continue
        n += 1
        variants = sorted({r.filtered for r in rs})
        ok = len(variants) == 1
        kept_s = " ".join(k for k, _t in kept) or "<empty>"
        detail = (f"{len(rs)} production(s) share tree name {name!r} and kept symbols [{kept_s}]; keyword sequences: "
                  + " | ".join(" ".join(v) for v in variants))
        if not ok:
            first = min(rs, key=lambda r: r.order)
            detail += f" -> the reconstructor prints every such node as `{' '.join(first.filtered)}`"
        ctx.rep.ob("R1", "GRAM", f"c2profile.lark::{name}::[{kept_s}]", ok, detail, "dissect/cobaltstrike/c2profile.lark", 0, nontrivial=len(rs) > 1)
    ctx.rep.count("reconstruction_groups", n, floor=150)


def r2(ctx, g: Grammar):
    used = set()
    for r in g.rules:
        for s in r.expansion:
            if s.is_term:
                used.add((s.name, s.filter_out))
    for name, filt in sorted(used):
        kind, val = g.terminals.get(name, ("?", None))
        if filt:
            ok = kind == "str"
            ctx.rep.ob("R2", "GRAM", f"c2profile.lark::terminal {name}", ok, f"filtered terminal is a plain string {val!r} (re-insertable)" if ok else f"filtered terminal {name} is a regexp: its text cannot be re-inserted",
                       "dissect/cobaltstrike/c2profile.lark", 0, nontrivial=False)
        else:
            ok = not name.startswith("_") and not name.startswith("__ANON")
            ctx.rep.ob("R2", "GRAM", f"c2profile.lark::terminal {name}", ok, f"kept terminal {name} ({kind}) is named: its text survives in the tree" if ok else f"kept terminal {name} is anonymous/filtered by name",
                       "dissect/cobaltstrike/c2profile.lark", 0)
    kept_terms = sorted(n for n, f in used if not f)
    ctx.ob("R2", "GRAM", "c2profile.lark", "kept terminals", kept_terms == ["OPTION", "STRING"], f"terminals kept in the tree: {kept_terms} (OPTION and STRING carry all variable text)")
    o = g.options
    ctx.ob("R2", "GRAM", "c2profile.py::Lark.open", "options", o.get("parser") == "lalr" and o.get("maybe_placeholders") is False and not o.get("keep_all_tokens"),
           f"parser options {o}: the Reconstructor requires maybe_placeholders=False")
    ctx.ob("R2", "GRAM", "c2profile.lark", "%ignore", g.ignored == {"WS", "SH_COMMENT", "NEWLINE"}, f"ignored terminals {sorted(g.ignored)} (whitespace and comments only)")


def r3(ctx):
    f = ctx.repo.func("c2profile.C2Profile.as_text")
    pp = ctx.repo.func("c2profile.C2Profile.as_text.postproc")
    items = None
    ys = [n for n in body_walk(pp.node) if isinstance(n, (ast.Yield, ast.YieldFrom))]
    # the parameter being iterated
    from csverif.astutil import params, assignments_to, const_eval, NotConst
    p = params(pp.node)[0]
    ok_all = True
    details = []
    loop = [s for s in statements(pp.node) if isinstance(s, ast.For) and dotted(s.iter) == p]
    item = dotted(loop[0].target) if loop else None
    acc = None
    for st in statements(pp.node):
        if isinstance(st, ast.Expr) and isinstance(st.value, ast.Call) and isinstance(st.value.func, ast.Attribute) and st.value.func.attr == "append" and st.value.args and dotted(st.value.args[0]) == item:
            acc = dotted(st.value.func.value)
    for y in ys:
        v = y.value
        good = False
        if isinstance(v, ast.Constant) and isinstance(v.value, str) and v.value.strip() == "":
            good = True
        elif isinstance(v, ast.BinOp):
            try:
                # " " * 4 * indent : whitespace times a number
                base = v
                while isinstance(base, ast.BinOp) and isinstance(base.op, ast.Mult):
                    base = base.left
                good = isinstance(base, ast.Constant) and isinstance(base.value, str) and base.value.strip() == ""
            except Exception:
                good = False
        elif isinstance(v, ast.Name):
            # an element of the accumulated line (for i, x in enumerate(line): yield x) or the item itself
            if v.id == item:
                good = True
            for st, val in assignments_to(pp.node, v.id):
                if isinstance(st, ast.For):
                    it = st.iter
                    src_it = it.args[0] if isinstance(it, ast.Call) and dotted(it.func) == "enumerate" and it.args else it
                    if dotted(src_it) == acc:
                        good = True
        ok_all = ok_all and good
        details.append(f"{src(v)}:{'ok' if good else 'NOT a stream item / whitespace'}")
    # every accumulated item is yielded: the inner loop over the accumulator yields each element unconditionally
    inner = [s for s in ast.walk(pp.node) if isinstance(s, ast.For) and acc and (dotted(s.iter) == acc or (isinstance(s.iter, ast.Call) and dotted(s.iter.func) == "enumerate" and s.iter.args and dotted(s.iter.args[0]) == acc))]
    every = False
    if inner:
        first = inner[0].body[0] if inner[0].body else None
        every = isinstance(first, ast.Expr) and isinstance(first.value, ast.Yield)
    appended_always = bool(loop) and any(isinstance(s, ast.Expr) and isinstance(s.value, ast.Call) and src(s.value) == f"{acc}.append({item})" for s in loop[0].body)
    # the accumulator is only reset after being flushed
    ctx.ob("R3", "TAINT", pp, "postproc yields", ok_all and every and appended_always,
           f"yields only stream items or whitespace: {details}; every item is appended to the line unconditionally={appended_always}; every line element is yielded unconditionally={every}")
    # flush condition covers the three statement terminators, so no item stays in an unflushed line at the end of a statement
    conds = [s for s in ast.walk(pp.node) if isinstance(s, ast.If) and isinstance(s.test, ast.Compare) and dotted(s.test.left) == item and isinstance(s.test.ops[0], ast.In)]
    try:
        fl = const_eval(conds[0].test.comparators[0]) if conds else None
    except NotConst:
        fl = None
    ctx.ob("R3", "TAINT", pp, "flush on terminators", fl is not None and set(fl) == set("{};"), f"line is flushed when the item is one of {fl!r} (required the terminators {{ }} ;)")
    rets = [s for s in statements(f.node) if isinstance(s, ast.Return)]
    ok = False
    if len(rets) == 1 and isinstance(origin(f.node, rets[0].value), ast.Call):
        c = origin(f.node, rets[0].value)
        if isinstance(c.func, ast.Attribute) and c.func.attr == "reconstruct" and len(c.args) >= 1:
            rc = origin(f.node, c.func.value)
            mk = isinstance(rc, ast.Call) and dotted(rc.func) in ("Reconstructor", "lark.reconstruct.Reconstructor") and rc.args and dotted(rc.args[0]) == "c2profile_parser"
            tree_ok = any(dotted(n) == "self.tree" for n in ast.walk(c.args[0]))
            pp_arg = c.args[1] if len(c.args) > 1 else kwarg(c, "postproc")
            ok = bool(mk) and tree_ok and (pp_arg is None or dotted(pp_arg) == "postproc")
    ctx.ob("R3", "AGREE", f, "return Reconstructor(parser).reconstruct(self.tree, postproc)", ok, "as_text returns the reconstruction of the profile's own tree" if ok else f"as_text returns {src(rets[0].value) if rets else None}")
    ft = ctx.repo.func("c2profile.C2Profile.from_text")
    st = [s for s in statements(ft.node) if isinstance(s, ast.Assign) and (dotted(s.targets[0]) or "").endswith(".tree")]
    ok = False
    if len(st) == 1 and isinstance(st[0].value, ast.Call):
        c = st[0].value
        ok = dotted(c.func) == "c2profile_parser.parse" and len(c.args) == 1 and dotted(c.args[0]) == params(ft.node)[1]
    ctx.ob("R3", "AGREE", ft, "profile.tree = parser.parse(source)", ok, "from_text stores the parser's tree unmodified" if ok else f"from_text stores {[src(s.value) for s in st]}")


def r5(ctx, g: Grammar):
    """Every `keyword { X* }` block form accepts the empty body (quantifier: "repeated and empty blocks")."""
    blocks = {}
    for r in g.rules:
        if r.origin.startswith("__") or not g.is_block(r):
            continue
        key = (r.origin, r.tree_name)
        body = [s for s in r.expansion if not s.is_term and s.name != "variant"]
        blocks.setdefault(key, []).append(len(body) == 0)
    n = 0
    for (origin_, name), empties in sorted(blocks.items()):
        n += 1
        ok = any(empties)
        ctx.rep.ob("R5", "GRAM", f"c2profile.lark::{origin_}::{name} {{}}", ok, f"block `{name}` of rule {origin_} has an alternative with an empty body={ok}" + ("" if ok else ": an empty block is rejected by the parser"),
                   "dissect/cobaltstrike/c2profile.lark", 0)
    ctx.rep.count("block_forms", n, floor=25)
